"""C01 — name text and wire codecs are exact inverses within DNS length limits."""

import copy
import io
import pickle

import dns.exception
import dns.name
import dns.tokenizer

from vlib import core
from vlib.gen import names as G
from vlib.mon.hooks import NameHook, ParserSpy
from vlib.ref import names as R

PROP = "C01"
LEVEL = "exploration"
RULE = (
    "names are generated from weighted octet classes (specials, digits, whitespace, controls, high octets, "
    "case-fold neighbours) and length shapes (1-4 labels, 127 one-octet labels, 63-octet labels, exactly 254/255 "
    "octets); hostile buffers are generated pointer graphs; exhaustive sub-spaces: every octet as a one-octet label "
    "and after each special, (thorough) every two-octet label. A case is distinct by (mode, label-class signature, "
    "length class, relativity, operation/outcome); trivial = empty/root name."
)
RULE += " " + (
    "Also: names restored from pickled state; str labels measured by their UTF-8 form; the same relative text against origins differing only in case."
)
ASSUMPTIONS = [
    "reference codec vlib/ref/names.py (RFC 1035 §3.1/§4.1.4/§5.1) is correct",
    "a compression pointer may reuse an earlier case-variant spelling of the same suffix (RFC 1035 §4.1.4 + case-insensitive identity)",
    "termination is judged by a parser-step budget quadratic in buffer size, with a 20 s per-case wall backstop",
]
REQUIRED = ["mon.pickled_state", "mon.constructor_str_labels", "mon.origin_case_twins", "mon.text_roundtrip", "mon.wire_roundtrip", "mon.compressed_decode", "mon.limit_prediction", "mon.hostile_decode", "mon.namehook"]
BUDGET = {"quick": 40.0, "thorough": 420.0}


def shards(tier, seed):
    n = 16
    mult = 1 if tier == "quick" else 36
    out = []
    for i in range(n):
        out.append({"mode": "mixed", "n_text": 2500 * mult, "n_wire": 1200 * mult, "n_comp": 250 * mult,
                    "n_ops": 2500 * mult, "n_hostile": 4000 * mult,
                    "exh": i, "exh_n": n, "two": tier == "thorough"})
    return out


def sigclass(labels):
    cl = set()
    for l in labels:
        for c in l:
            if c in G.SPECIALS:
                cl.add("s")
            elif 0x30 <= c <= 0x39:
                cl.add("d")
            elif c <= 0x20 or c == 0x7F:
                cl.add("c")
            elif c >= 0x80:
                cl.add("h")
            elif 0x41 <= c <= 0x5A:
                cl.add("U")
            else:
                cl.add("p")
    wl = R.wire_len(labels)
    lc = "0" if wl <= 1 else "S" if wl < 64 else "M" if wl < 250 else "L" if wl < 254 else "X%d" % wl
    mx = max((len(l) for l in labels), default=0)
    return "".join(sorted(cl)) + lc + ("m63" if mx == 63 else "m62" if mx == 62 else "") + ("A" if labels and labels[-1] == b"" else "R") + ("n%d" % min(len(labels), 9))


def mk(labels):
    return dns.name.Name(labels)


# ------------------------------------------------------------------------------------------ text


def check_text(ctx, labels, case_kind="gen"):
    """round trip through text in every spelling; returns nothing, reports to ctx"""
    n = mk(labels)
    case = {"kind": "text", "labels": list(labels)}
    ctx.count("evaluations")
    ctx.count("mon.text_roundtrip")
    ctx.seen(("text", sigclass(labels), case_kind))
    try:
        t = n.to_text()
        n2 = dns.name.from_text(t, origin=None)
        if n2.labels != tuple(labels):
            ctx.violation("text-roundtrip-mismatch", f"labels={labels!r} text={t!r} back={n2.labels!r}", case)
        # reference parser on the library's text
        try:
            rl = R.parse_text(t, origin=None)
        except R.RefError as e:
            rl = ("REF-ERROR", str(e))
        if rl != tuple(labels):
            ctx.violation("text-form-not-rfc1035", f"labels={labels!r} lib text={t!r} reference parse={rl!r}", case)
        # omit_final_dot
        if labels and labels[-1] == b"" and len(labels) > 1:
            t2 = n.to_text(omit_final_dot=True)
            n3 = dns.name.from_text(t2, origin=dns.name.root)
            if n3.labels != tuple(labels):
                ctx.violation("text-omit-final-dot-mismatch", f"labels={labels!r} text={t2!r} back={n3.labels!r}", case)
        # styled text: NameStyle(origin=, relativize=, omit_final_dot=) -- relativized to one of its own suffixes or left absolute
        if labels and labels[-1] == b"" and len(labels) > 1:
            rng = ctx.rng
            suf = tuple(labels[rng.randrange(1, len(labels)):])
            for o in (suf, (b"unrelated", b"zz", b"")):
                for rel in (True, False):
                    for omit in (True, False):
                        ctx.count("mon.styled_text")
                        ts = n.to_styled_text(dns.name.NameStyle(origin=mk(o), relativize=rel, omit_final_dot=omit))
                        under = R.is_subdomain(tuple(labels), o) and len(o) > 0
                        if rel and under:
                            back = dns.name.from_text(ts, origin=mk(o))  # a relative spelling: the origin is appended
                        else:
                            back = dns.name.from_text(ts, origin=dns.name.root)  # absolute, with or without its final dot
                        if back.labels != tuple(labels):
                            ctx.violation("styled-text-mismatch:" + ("relativized" if rel and under else "absolute") + (":omit-final-dot" if omit else ""),
                                          f"labels={labels!r} origin={o!r} text={ts!r} back={back.labels!r}", case)
        # reference spellings through the library parser
        for style in ("minimal", "ddd", "bschar"):
            rt = R.to_text(tuple(labels), style)
            n4 = dns.name.from_text(rt, origin=None)
            if n4.labels != tuple(labels):
                ctx.violation(f"text-parse-mismatch-{style}", f"labels={labels!r} ref text={rt!r} lib parse={n4.labels!r}", case)
        # bytes input
        n5 = dns.name.from_text(t.encode("ascii"), origin=None)
        if n5.labels != tuple(labels):
            ctx.violation("text-bytes-input-mismatch", f"labels={labels!r} text={t!r} back={n5.labels!r}", case)
        # tokenizer path (as rdata / zone parsing does it), followed by other tokens
        if len(labels) > 0:
            tok = dns.tokenizer.Tokenizer(t + " 42 ; comment\n")
            n6 = tok.get_name(origin=None)
            nxt = tok.get_int()
            if n6.labels != tuple(labels) or nxt != 42:
                ctx.violation("text-tokenizer-mismatch", f"labels={labels!r} text={t!r} tok={n6.labels!r} next={nxt}", case)
        # origin handling for relative names
        if not (labels and labels[-1] == b""):
            o = (b"example", b"")
            if R.fits(tuple(labels) + o):
                n7 = dns.name.from_text(t, origin=mk(o))
                if n7.labels != tuple(labels) + o:
                    ctx.violation("text-origin-append-mismatch", f"labels={labels!r} text={t!r} back={n7.labels!r}", case)
    except dns.exception.DNSException as e:
        ctx.violation("text-roundtrip-raised:" + core.exc_sig(e), f"labels={labels!r}: {e!r}", case)
    except Exception as e:
        ctx.violation("text-roundtrip-foreign:" + core.exc_sig(e), f"labels={labels!r}: {e!r}", case)


# ------------------------------------------------------------------------------------------ wire


def check_wire(ctx, labels, origin):
    case = {"kind": "wire", "labels": list(labels), "origin": list(origin)}
    ctx.count("evaluations")
    ctx.count("mon.wire_roundtrip")
    ctx.seen(("wire", sigclass(labels)))
    n = mk(labels)
    absolute = bool(labels) and labels[-1] == b""
    full = tuple(labels) if absolute else tuple(labels) + tuple(origin)
    try:
        if not absolute and not R.fits(full):
            # name + origin is over 255 octets: there is no wire form; every spelling of the conversion raises (none hands back
            # more than 255 octets)
            ctx.count("mon.wire_overlong_with_origin")
            for how, fn in (("bytes", lambda: n.to_wire(origin=mk(origin))), ("file", lambda: n.to_wire(io.BytesIO(), None, mk(origin))), ("digestable", lambda: n.to_digestable(mk(origin)))):
                try:
                    out = fn()
                    ctx.violation(f"wire-form-over-255-octets-returned:{how}", f"labels={labels!r} origin={origin!r} len={len(out) if out is not None else 'written'}", case)
                except dns.exception.DNSException:
                    pass
            return
        w = n.to_wire(origin=mk(origin))
        rw = R.to_wire(tuple(labels), tuple(origin))
        if w != rw:
            ctx.violation("wire-encode-differs-from-reference", f"labels={labels!r} lib={w.hex()} ref={rw.hex()}", case)
        pre = bytes(ctx.rng.randrange(256) for _ in range(ctx.rng.choice((0, 1, 7, 300))))
        buf = pre + w + b"\xc0\x00\x07garbage"
        n2, used = dns.name.from_wire(buf, len(pre))
        if n2.labels != full or used != len(w):
            ctx.violation("wire-roundtrip-mismatch", f"labels={labels!r} wire={w.hex()} back={n2.labels!r} used={used}", case)
        # to_wire(file) path without compression
        f = io.BytesIO()
        n.to_wire(f, None, mk(origin))
        if f.getvalue() != rw:
            ctx.violation("wire-file-encode-differs", f"labels={labels!r} lib={f.getvalue().hex()} ref={rw.hex()}", case)
        # digestable = folded
        d = n.to_digestable(mk(origin))
        if d != R.to_wire(tuple(R.fold(l) for l in full)):
            ctx.violation("digestable-not-folded-wire", f"labels={labels!r} dig={d.hex()}", case)
    except dns.exception.DNSException as e:
        ctx.violation("wire-roundtrip-raised:" + core.exc_sig(e), f"labels={labels!r} origin={origin!r}: {e!r}", case)
    except Exception as e:
        ctx.violation("wire-roundtrip-foreign:" + core.exc_sig(e), f"labels={labels!r}: {e!r}", case)


class SpyDict(dict):
    """compression table that logs insertions"""

    def __init__(self):
        super().__init__()
        self.log = []

    def __setitem__(self, k, v):
        self.log.append((k, v))
        super().__setitem__(k, v)


def check_compressed(ctx, prefix_len, namelist, origin):
    """render a sequence of names into one buffer with a shared table; decode each at its offset with
    the library and with the reference decoder"""
    case = {"kind": "comp", "prefix": prefix_len, "names": [list(n) for n in namelist], "origin": list(origin)}
    ctx.count("evaluations")
    f = io.BytesIO()
    f.write(b"\x00" * prefix_len)
    table = SpyDict()
    offs = []
    o = mk(origin)
    try:
        for labels in namelist:
            offs.append(f.tell())
            mk(labels).to_wire(f, table, o)
            # records between names, as in a message
            f.write(b"\x00\x01\x00\x01")
        buf = f.getvalue()
        variants = {}
        pointers = 0
        for labels, off in zip(namelist, offs):
            absolute = bool(labels) and labels[-1] == b""
            full = tuple(labels) if absolute else tuple(labels) + tuple(origin)
            ctx.count("mon.compressed_decode")
            n2, used = dns.name.from_wire(buf, off)
            try:
                rl, rused = R.from_wire(buf, off)
            except R.RefError as e:
                ctx.violation("compressed-output-undecodable-by-reference", f"names={namelist!r} off={off}: {e}", case)
                continue
            if buf[off + rused - 2] >= 0xC0 and rused >= 2:
                pointers += 1
            if rl != n2.labels or rused != used:
                ctx.violation("compressed-decode-lib-vs-reference", f"off={off} lib={n2.labels!r}/{used} ref={rl!r}/{rused}", case)
            if not R.equal(rl, full):
                ctx.violation("compressed-roundtrip-different-name", f"orig={full!r} decoded={rl!r} off={off}", case)
            else:
                shared = False
                for i in range(len(full)):
                    k = tuple(R.fold(l) for l in full[i:])
                    sp = variants.get(k)
                    if sp is not None and sp != full[i:]:
                        shared = True
                if rl != full:
                    if shared:
                        ctx.count("obs.case_variant_suffix_shared")
                    else:
                        ctx.violation("compressed-roundtrip-bytes-differ", f"orig={full!r} decoded={rl!r} off={off}", case)
            for i in range(len(rl)):
                variants.setdefault(tuple(R.fold(l) for l in rl[i:]), rl[i:])
        # table entries: offset <= 0x3FFF, decodes to exactly the keyed suffix, never the root
        for k, v in table.log:
            ctx.count("mon.table_entry")
            if v > 0x3FFF:
                ctx.violation("compress-table-offset-over-3fff", f"entry {k} -> {v}", case)
                continue
            if len(k.labels) <= 1:
                ctx.violation("compress-table-holds-root", f"entry {k!r} -> {v}", case)
                continue
            try:
                rl, _ = R.from_wire(buf, v)
            except R.RefError as e:
                ctx.violation("compress-table-entry-undecodable", f"entry {k} -> {v}: {e}", case)
                continue
            if not R.equal(rl, k.labels):
                ctx.violation("compress-table-entry-wrong-target", f"entry {k} -> {v} decodes to {rl!r}", case)
        ctx.seen(("comp", "big" if prefix_len > 0x3F00 else "small", min(pointers, 6), len(namelist) // 4))
        if pointers:
            ctx.count("obs.names_ending_in_pointer", pointers)
    except dns.exception.DNSException as e:
        ctx.violation("compressed-roundtrip-raised:" + core.exc_sig(e), f"names={namelist!r}: {e!r}", case)
    except Exception as e:
        ctx.violation("compressed-roundtrip-foreign:" + core.exc_sig(e), f"names={namelist!r}: {e!r}", case)


# ------------------------------------------------------------------------------------------ limits / producing operations


def over_labels(rng):
    """label sequences around the limits, legal or not"""
    r = rng.random()
    if r < 0.25:
        labs = list(G.rel_labels(rng, 254, shape="full"))
        if rng.random() < 0.5 and labs:
            i = rng.randrange(len(labs))
            if len(labs[i]) < 63 or rng.random() < 0.3:
                labs[i] = labs[i] + b"x" * rng.choice((1, 1, 2))
        elif rng.random() < 0.5:
            labs.insert(rng.randrange(len(labs) + 1), b"y")
    elif r < 0.45:
        labs = [G.label(rng) for _ in range(rng.randint(1, 3))]
        labs[rng.randrange(len(labs))] = bytes(rng.randrange(256) for _ in range(rng.choice((63, 64, 65, 100))))
    elif r < 0.6:
        labs = list(G.rel_labels(rng, 200, shape="short"))
        if labs:
            labs.insert(rng.randrange(len(labs)), b"")
    else:
        labs = list(G.rel_labels(rng, 254))
    if rng.random() < 0.6:
        labs.append(b"")
    return tuple(labs)


def expect(ctx, opname, fn, predicted_labels, case):
    """predicted_labels: tuple -> must return exactly these; None -> must raise a library error"""
    ctx.count("mon.limit_prediction")
    try:
        r = fn()
    except dns.exception.DNSException as e:
        if predicted_labels is not None:
            ctx.violation(f"op-{opname}-raised-but-fits", f"{case}: {e!r}", case)
        else:
            ctx.count("obs.limit_rejections")
        ctx.seen(("op", opname, "raise", type(e).__name__))
        return None
    except Exception as e:
        ctx.violation(f"op-{opname}-foreign:" + core.exc_sig(e), f"{case}: {e!r}", case)
        return None
    labels = r.labels
    if predicted_labels is None:
        ctx.violation(f"op-{opname}-returned-illegal-name", f"{case}: returned {labels!r} (wire len {R.wire_len(labels)})", case)
    elif labels != predicted_labels:
        ctx.violation(f"op-{opname}-wrong-result", f"{case}: returned {labels!r}, reference {predicted_labels!r}", case)
    ctx.seen(("op", opname, "ok", "X" if R.wire_len(labels) >= 254 else "s"))
    return r


def check_ops(ctx, a, b):
    """a, b: arbitrary label tuples (maybe illegal).  Exercise every producing operation."""
    ctx.count("evaluations")
    case = {"kind": "ops", "a": list(a), "b": list(b)}
    na = expect(ctx, "construct", lambda: mk(a), a if R.fits(a) else None, case)
    nb = expect(ctx, "construct", lambda: mk(b), b if R.fits(b) else None, case)
    if na is None or nb is None:
        return
    a_abs = bool(a) and a[-1] == b""
    b_abs = bool(b) and b[-1] == b""
    # concatenate
    if a_abs and len(b) > 0:
        pred = None
    else:
        pred = a + b if R.fits(a + b) else None
    expect(ctx, "concatenate", lambda: na.concatenate(nb), pred, case)
    expect(ctx, "add", lambda: na + nb, pred, case)
    # derelativize
    if a_abs:
        pred = a
    else:
        pred = a + b if R.fits(a + b) else None
    expect(ctx, "derelativize", lambda: na.derelativize(nb), pred, case)
    # relativize: subdomain ⇒ strip (the empty origin is a degenerate case that is not exercised)
    if len(b) > 0:
        pred = a[: len(a) - len(b)] if R.is_subdomain(a, b) else a
        expect(ctx, "relativize", lambda: na.relativize(nb), pred, case)
        expect(ctx, "sub", lambda: na - nb, pred, case)
        expect(ctx, "choose_relativity_T", lambda: na.choose_relativity(nb, True), pred, case)
    # split / parent / canonicalize
    if len(a) > 0:
        d = ctx.rng.randint(0, len(a))
        ctx.count("mon.limit_prediction")
        try:
            p, s = na.split(d)
            if p.labels != a[: len(a) - d] or s.labels != a[len(a) - d:]:
                ctx.violation("op-split-wrong-result", f"{a!r} depth {d}: {p.labels!r} {s.labels!r}", case)
        except Exception as e:
            ctx.violation("op-split-raised:" + core.exc_sig(e), f"{a!r} depth {d}: {e!r}", case)
        if a != (b"",):
            expect(ctx, "parent", lambda: na.parent(), a[1:], case)
    expect(ctx, "canonicalize", lambda: na.canonicalize(), tuple(R.fold(l) for l in a), case)
    # pickle / copy
    expect(ctx, "pickle", lambda: pickle.loads(pickle.dumps(na)), a, case)
    expect(ctx, "deepcopy", lambda: copy.deepcopy(na), a, case)
    # text with origin appended: over-long results must raise
    if not a_abs and b_abs and len(a) > 0:
        t = R.to_text(a)
        pred = a + b if R.fits(a + b) else None
        expect(ctx, "from_text_origin", lambda: dns.name.from_text(t, origin=nb), pred, case)
    # successor / predecessor inside an origin
    if a_abs and b_abs and R.is_subdomain(a, b):
        for prefix_ok in (True, False):
            for opn in ("successor", "predecessor"):
                ctx.count("mon.limit_prediction")
                try:
                    r = getattr(na, opn)(nb, prefix_ok)
                    if not R.fits(r.labels) or not R.is_subdomain(r.labels, b):
                        ctx.violation(f"op-{opn}-illegal-result", f"{a!r} in {b!r}: {r.labels!r}", case)
                    ctx.seen(("op", opn, prefix_ok, "X" if R.wire_len(r.labels) >= 254 else "s"))
                except Exception as e:
                    ctx.violation(f"op-{opn}-raised:" + core.exc_sig(e), f"{a!r} in {b!r}: {e!r}", case)
        # relative flavour
        rel = a[: len(a) - len(b)]
        nrel = mk(rel)
        for opn in ("successor", "predecessor"):
            ctx.count("mon.limit_prediction")
            try:
                r = getattr(nrel, opn)(nb)
                if r.is_absolute() and len(rel) > 0 and r.labels != b:
                    ctx.violation(f"op-{opn}-relativity-lost", f"{rel!r} in {b!r}: {r.labels!r}", case)
                if not R.fits(r.labels + (b if not r.is_absolute() else ())):
                    ctx.violation(f"op-{opn}-illegal-result", f"{rel!r} in {b!r}: {r.labels!r}", case)
            except Exception as e:
                ctx.violation(f"op-{opn}-raised:" + core.exc_sig(e), f"{rel!r} in {b!r}: {e!r}", case)


def check_pickle(ctx, labels):
    """a name restored from pickled state (the one way a Name comes into being without its constructor): a legal state gives
    the same labels back, an illegal one (forged or damaged pickle) is refused"""
    import copy
    import pickle

    ctx.count("mon.pickled_state")
    case = {"kind": "pickle", "labels": list(labels)}
    legal = R.fits(labels) and not any(l == b"" for l in labels[:-1])
    if legal:
        n = mk(labels)
        for how, back in (("pickle", lambda: pickle.loads(pickle.dumps(n, rng_proto[0]))), ("deepcopy", lambda: copy.deepcopy(n)), ("copy", lambda: copy.copy(n))):
            expect(ctx, "restore-" + how, back, tuple(labels), case)
        rng_proto[0] = (rng_proto[0] + 1) % (pickle.HIGHEST_PROTOCOL + 1)
    # the state as pickle would hand it over, legal or not
    def restore():
        n2 = dns.name.Name.__new__(dns.name.Name)
        n2.__setstate__({"labels": tuple(labels)})
        return n2
    expect(ctx, "__setstate__", restore, tuple(labels) if legal else None, case)


rng_proto = [0]


def check_text_limits(ctx, labels):
    """text of an arbitrary (maybe illegal) label sequence: accept iff it fits"""
    ctx.count("evaluations")
    check_pickle(ctx, labels)
    case = {"kind": "textlimit", "labels": list(labels)}
    if any(l == b"" for l in labels[:-1]):
        return
    style = ctx.rng.choice(("minimal", "ddd", "bschar"))
    t = R.to_text(labels, style)
    pred = labels if R.fits(labels) else None
    expect(ctx, "from_text", lambda: dns.name.from_text(t, origin=None), pred, case)
    if labels and labels[-1] == b"":
        w = b"".join(bytes([len(l)]) + l for l in labels if len(l) < 64)
        if all(len(l) < 64 for l in labels):
            expect(ctx, "from_wire", lambda: dns.name.from_wire(w, 0)[0], pred, case)


def check_constructor_str(ctx, rng):
    """Name(labels) with str labels: what is stored (and measured against 63/255) is the UTF-8 encoding, not the character count"""
    ctx.count("evaluations")
    ctx.count("mon.constructor_str_labels")
    labs = []
    for _ in range(rng.choice((1, 2, 3, 4, 6))):
        ch = rng.choice(("a", "\u00e9", "\u00e9", "\u20ac", "\U0001f600", "z\u00fc"))
        n = rng.choice((1, 5, 21, 31, 32, 33, 62, 63, 64, rng.randint(1, 70)))
        labs.append((ch * n)[:n] if rng.random() < 0.7 else ch * max(1, n // 4) + "x" * rng.randint(0, 20))
    if rng.random() < 0.6:
        labs.append("")
    mixed = [l.encode() if rng.random() < 0.2 else l for l in labs]  # str and bytes may be mixed in one call
    want = tuple(l.encode() for l in labs)
    case = {"kind": "ctor-str", "labels": [repr(l) for l in mixed]}
    ctx.seen(("ctor-str", min(max(len(w) for w in want), 70) // 8, R.fits(want)))
    expect(ctx, "Name(str-labels)", lambda: dns.name.Name(mixed), want if R.fits(want) else None, case)


def check_origin_twins(ctx, rng, labels):
    """the same relative text read against origins that differ only in letter case, one after the other: every result carries
    the labels of the origin IT was given"""
    if labels and labels[-1] == b"":
        return
    ctx.count("evaluations")
    ctx.count("mon.origin_case_twins")
    base = rng.choice(((b"example", b"com", b""), (b"zone", b""), (b"a-b", b"x1", b"test", b"")))
    t = rng.choice(("@", "")) if not labels or rng.random() < 0.15 else R.to_text(labels)
    rel = () if t in ("@", "") else tuple(labels)
    case = {"kind": "origin-twins", "labels": list(rel), "text": t}
    for variant in rng.sample((bytes.lower, bytes.upper, bytes.title, bytes.swapcase), 3):
        o = tuple(variant(l) for l in base)
        if not R.fits(rel + o):
            return
        how = rng.choice(("from_text", "tokenizer", "bytes"))
        try:
            if how == "from_text":
                got = dns.name.from_text(t, origin=mk(o))
            elif how == "bytes":
                got = dns.name.from_text(t.encode("ascii"), origin=mk(o))
            else:
                got = dns.tokenizer.Tokenizer((t or "@") + " 1\n").get_name(origin=mk(o))
        except Exception as e:
            ctx.violation("text-origin-append-raised:" + core.exc_sig(e), f"text={t!r} origin={o!r}: {e!r}", case)
            return
        if got.labels != rel + o:
            ctx.violation("text-origin-append-mismatch:origin-spelled-in-another-case-earlier", f"text={t!r} origin={o!r} back={got.labels!r}", case)
            return


# ------------------------------------------------------------------------------------------ hostile wire


def hostile_buffer(rng):
    """returns (buf, pos, wellformed)"""
    buf = bytearray()
    starts = []  # label starts of valid names in the prefix
    for _ in range(rng.randint(0, 5)):
        labs = G.rel_labels(rng, 100, shape=rng.choice(("short", "mid")))
        for l in labs:
            starts.append(len(buf))
            buf.append(len(l))
            buf += l
        starts.append(len(buf))
        buf.append(0)
        buf += bytes(rng.randrange(256) for _ in range(rng.choice((0, 0, 2, 10))))
    kind = rng.choice(("valid_ptr", "valid_ptr", "self", "forward", "cycle", "chain", "midlabel", "ownstart",
                       "ownlabel", "trunc", "badtype", "beyond", "random", "long", "ptr2ptr"))
    pos = len(buf)
    well = False
    body = bytearray()
    for l in G.rel_labels(rng, 60, shape="short"):
        body.append(len(l))
        body += l

    def ptr(t):
        return bytes([0xC0 | ((t >> 8) & 0x3F), t & 0xFF])

    if kind == "valid_ptr" and starts:
        buf += body + ptr(rng.choice(starts))
        well = True
    elif kind == "self":
        buf += body + ptr(pos + len(body))
    elif kind == "forward":
        buf += body + ptr(pos + len(body) + rng.randint(1, 6)) + b"\x01a\x00" * 3
    elif kind == "cycle":
        k = rng.randint(2, 5)
        base = len(buf)
        # k pointers pointing at each other in a ring placed before the name
        for i in range(k):
            buf += ptr(base + 2 * ((i + 1) % k))
        pos = len(buf)
        buf += body + ptr(base + 2 * rng.randrange(k))
    elif kind == "chain":
        # decreasing chain of pointers, each preceded by a label
        k = rng.randint(2, 12)
        seg_starts = []
        first = True
        for i in range(k):
            seg_starts.append(len(buf))
            l = G.label(rng, 5)
            buf.append(len(l))
            buf += l
            if first:
                buf.append(0)
                first = False
            else:
                buf += ptr(seg_starts[-2])
        pos = len(buf)
        buf += body + ptr(seg_starts[-1])
        well = True
    elif kind == "midlabel" and len(buf) > 3:
        buf += body + ptr(rng.randrange(len(buf)))
    elif kind == "ownstart":
        buf += body + ptr(pos)
    elif kind == "ownlabel" and len(body) > 2:
        buf += body + ptr(pos + rng.randrange(len(body)))
    elif kind == "trunc":
        full = body + b"\x00"
        buf += full[: rng.randrange(len(full))]
    elif kind == "badtype":
        buf += body + bytes([rng.choice((0x40, 0x41, 0x80, 0xBF, 0x7F))]) + b"abc\x00"
    elif kind == "beyond":
        buf += body + ptr(rng.choice((len(buf) + len(body) + 2, 0x3FFF, len(buf) + 500)))
    elif kind == "long":
        # decompresses to > 255 octets via chained valid names
        seg = []
        first = True
        for i in range(rng.randint(4, 8)):
            seg.append(len(buf))
            l = bytes(rng.randrange(256) for _ in range(rng.choice((40, 63))))
            buf.append(len(l))
            buf += l
            if first:
                buf.append(0)
                first = False
            else:
                buf += ptr(seg[-2])
        pos = len(buf)
        buf += body + ptr(seg[-1])
    elif kind == "ptr2ptr" and starts:
        a = len(buf)
        buf += ptr(rng.choice(starts))
        pos = len(buf)
        buf += body + ptr(a)
    else:
        buf += bytes(rng.randrange(256) for _ in range(rng.randint(0, 40)))
        pos = rng.randrange(len(buf) + 2)
    buf += bytes(rng.randrange(256) for _ in range(rng.choice((0, 0, 3, 20))))
    return bytes(buf), pos, well, kind


def check_hostile(ctx, spy, buf, pos, well, kind):
    ctx.count("evaluations")
    ctx.count("mon.hostile_decode")
    case = {"kind": "hostile", "buf": buf, "pos": pos, "well": well, "gen": kind}
    n = len(buf)
    spy.begin(budget=n * n // 4 + 20 * n + 200)
    lib = None
    try:
        with core.case_guard(20):
            lib = dns.name.from_wire(buf, pos)
        outcome = "ok"
    except dns.exception.DNSException as e:
        outcome = type(e).__name__
    except core.StepBudgetExceeded as e:
        ctx.violation("wire-decode-step-budget", f"{e} buf={buf.hex()} pos={pos}", case)
        return
    except core.CaseTimeout:
        ctx.violation("wire-decode-hang", f"buf={buf.hex()} pos={pos}", case)
        return
    except Exception as e:
        ctx.violation("wire-decode-foreign:" + core.exc_sig(e), f"buf={buf.hex()} pos={pos}: {e!r}", case)
        return
    finally:
        spy.end()
    try:
        ref = R.from_wire(buf, pos)
    except R.RefError as e:
        ref = None
    ctx.seen(("hostile", kind, outcome, ref is not None))
    ctx.table("hostile_outcomes", f"{kind}:{outcome}")
    if lib is not None:
        if ref is None:
            ctx.violation("wire-decode-accepts-what-reference-rejects", f"buf={buf.hex()} pos={pos} lib={lib[0].labels!r}", case)
        elif lib[0].labels == ref[0] and lib[1] != ref[1] and lib[1] == furthest_touched(buf, pos) - pos:
            # a pointer whose target label runs on past the name being decoded (the label overlaps the name itself): legal by
            # the strictly-earlier rule, never produced by a renderer; the library then reports the furthest octet it touched as
            # consumed.  The property speaks of labels, lengths, termination and pointer direction, not of this count: observed,
            # not judged (DESIGN.md section 6.3)
            ctx.count("obs.pointer_target_label_overlaps_name")
        elif lib[0].labels != ref[0] or lib[1] != ref[1]:
            ctx.violation("wire-decode-differs-from-reference", f"buf={buf.hex()} pos={pos} lib={lib[0].labels!r}/{lib[1]} ref={ref}", case)
    elif ref is not None and well:
        ctx.violation("wire-decode-rejects-wellformed", f"buf={buf.hex()} pos={pos} ref={ref} lib raised {outcome}", case)
    elif ref is not None:
        ctx.count("obs.lib_rejects_lenient_accept")


# ------------------------------------------------------------------------------------------ driver


def flush_hook(ctx, hook):
    for labels in hook.drain():
        ctx.violation("name-object-violates-limits", f"a Name with labels {labels!r} (wire {R.wire_len(labels)}) was constructed", {"kind": "hook", "labels": list(labels)})


def run(spec, ctx):
    rng = ctx.rng
    hook = NameHook().install()
    spy = ParserSpy().install()
    try:
        # exhaustive sub-spaces, partitioned over shards
        exh, exh_n = spec["exh"], spec["exh_n"]
        for c in range(256):
            if c % exh_n != exh:
                continue
            check_text(ctx, (bytes([c]), b""), "exh1")
            check_text(ctx, (bytes([c]),), "exh1")
            for s in G.SPECIALS + b"0 9":
                check_text(ctx, (bytes([s, c]), b"x", b""), "exh-after-special")
                check_text(ctx, (bytes([c, s]),), "exh-before-special")
            ctx.count("exhaustive.one_octet_labels")
        if spec.get("two"):
            for c in range(256):
                if c % exh_n != exh:
                    continue
                for d in range(256):
                    check_text(ctx, (bytes([c, d]), b""), "exh2")
                ctx.count("exhaustive.two_octet_label_rows")
        flush_hook(ctx, hook)
        # generated
        for i in range(spec["n_text"]):
            if ctx.expired(0.35):
                break
            labels = G.name(rng)
            check_text(ctx, labels)
            check_origin_twins(ctx, rng, labels if not (labels and labels[-1] == b"") else tuple(labels[:-1])[: rng.randint(0, 3)])
            check_constructor_str(ctx, rng)
            if i < 3:
                ctx.sample({"mode": "text", "labels": [l.hex() for l in labels], "text": R.to_text(labels)})
        flush_hook(ctx, hook)
        for i in range(spec["n_wire"]):
            if ctx.expired(0.5):
                break
            check_wire(ctx, G.name(rng), G.origin(rng))
        flush_hook(ctx, hook)
        for i in range(spec["n_comp"]):
            if ctx.expired(0.65):
                break
            pool = G.Pool(rng, plain=rng.random() < 0.5)
            origin = rng.choice(pool.suffixes)
            nl = []
            for _ in range(rng.randint(2, 14)):
                n = pool.name()
                if rng.random() < 0.3 and R.is_subdomain(n, origin) and len(origin) > 1:
                    n = n[: len(n) - len(origin)]
                nl.append(n)
            prefix = rng.choice((0, 12, 12, 100, 0x3FF0, 0x3FFF - 5, 0x4000, 0x4010))
            check_compressed(ctx, prefix, nl, origin)
            if i < 1:
                ctx.sample({"mode": "compressed", "prefix": prefix, "names": [R.to_text(n) for n in nl]})
        flush_hook(ctx, hook)
        for i in range(spec["n_ops"]):
            if ctx.expired(0.85):
                break
            a = over_labels(rng)
            r = rng.random()
            if r < 0.4 and a and a[-1] == b"":
                k = rng.randint(0, len(a) - 1)
                b = a[len(a) - 1 - k:]
            elif r < 0.7:
                b = G.origin(rng)
            else:
                b = over_labels(rng)
            check_ops(ctx, a, b)
            check_text_limits(ctx, over_labels(rng))
        flush_hook(ctx, hook)
        for i in range(spec["n_hostile"]):
            if ctx.expired(1.0):
                break
            buf, pos, well, kind = hostile_buffer(rng)
            check_hostile(ctx, spy, buf, pos, well, kind)
            if i < 1:
                ctx.sample({"mode": "hostile", "kind": kind, "buf": buf.hex(), "pos": pos})
        flush_hook(ctx, hook)
        ctx.count("mon.namehook", hook.evaluations)
    finally:
        hook.uninstall()
        spy.uninstall()


def furthest_touched(buf, pos):
    """end offset of the furthest octet a decoder reads while following the name at pos (grammar walk, no checks)"""
    far = pos
    for _ in range(len(buf) + 2):
        c = buf[pos]
        if c == 0:
            return max(far, pos + 1)
        if c >= 192:
            far = max(far, pos + 2)
            pos = ((c & 0x3F) << 8) | buf[pos + 1]
        else:
            pos += 1 + c
            far = max(far, pos)
    return far


def replay(case, ctx):
    hook = NameHook().install()
    spy = ParserSpy().install()
    try:
        k = case["kind"]
        tb = lambda ls: tuple(bytes(x) if not isinstance(x, bytes) else x for x in ls)
        if k == "text":
            check_text(ctx, tb(case["labels"]))
        elif k == "wire":
            check_wire(ctx, tb(case["labels"]), tb(case["origin"]))
        elif k == "comp":
            check_compressed(ctx, case["prefix"], [tb(n) for n in case["names"]], tb(case["origin"]))
        elif k == "ops":
            check_ops(ctx, tb(case["a"]), tb(case["b"]))
        elif k == "textlimit":
            check_text_limits(ctx, tb(case["labels"]))
        elif k == "hostile":
            check_hostile(ctx, spy, case["buf"], case["pos"], case["well"], case["gen"])
        elif k == "hook":
            try:
                mk(tb(case["labels"]))
            except dns.exception.DNSException:
                pass
        flush_hook(ctx, hook)
    finally:
        hook.uninstall()
        spy.uninstall()
