"""C02 — every record type's wire form round-trips and re-encodes byte-identically."""

import io
import pickle

import dns.exception
import dns.name
import dns.rdata
import dns.rdataclass
import dns.rdatatype
import dns.wire

from vlib import core
from vlib.gen import names as GN
from vlib.gen import rdata as GR
from vlib.mon.hooks import ParserSpy
from vlib.ref import names as RN

PROP = "C02"
LEVEL = "exploration"
RULE = (
    "well-formed values come from the rdata type table (vlib/gen/rdata.py: one generator per implemented (class,type) "
    "plus unknown type codes, boundary-biased fields) and are compared with an independent per-type reference encoder; "
    "hostile RDATA = structure-aware and blind mutations of valid encodings plus random strings, for every type. "
    "Distinct by (type, boundary tags of the value, origin mode) for round trips and (type, mutation kind, outcome) for hostile decodes."
)
ASSUMPTIONS = [
    "the reference encoders in vlib/gen/rdata.py (written from the RFCs) are correct",
    "'well-formed value' = produced by the type table; values only from_wire accepts are judged by the weaker fixed-point rule",
]
REQUIRED = ["mon.first_lookup_in_foreign_class", "mon.roundtrip", "mon.ref_encode", "mon.hostile_decode", "mon.fixed_point", "mon.consumed_exactly"]
BUDGET = {"quick": 45.0, "thorough": 480.0}

UNREL = (b"unrelated-zz9", b"")


def shards(tier, seed):
    types = GR.ALL_TYPES
    mult = 1 if tier == "quick" else 80
    out = []
    for i in range(16):
        out.append({"types": types[i::16] + types[(i + 5) % 16::16], "n_rt": 220 * mult, "n_host": 1600 * mult})
    return out


def mkname(labels):
    return dns.name.Name(labels)


def normalized(val, origin, mode):
    """mode 'norm': names relative iff under origin; 'full': every name absolute"""
    args = []
    o = tuple(origin)

    def conv(n):
        labels = n.labels
        full = labels if labels and labels[-1] == b"" else labels + o
        if mode == "full":
            return GR.NameRef(full, n.comp, n.down)
        if RN.is_subdomain(full, o):
            return GR.NameRef(full[: len(full) - len(o)], n.comp, n.down)
        return GR.NameRef(full, n.comp, n.down)

    for a in val.args:
        if isinstance(a, GR.NameRef):
            args.append(conv(a))
        elif isinstance(a, tuple) and a and isinstance(a[0], GR.NameRef):
            args.append(tuple(conv(x) for x in a))
        else:
            args.append(a)
    return GR.Val(val.rdclass, val.rdtype, val.tname, args, val.parts, val.tags)


def case_variant_of_origin(val, origin):
    o = tuple(origin)
    for n in val.names():
        full = n.labels if n.labels and n.labels[-1] == b"" else n.labels + o
        if RN.is_subdomain(full, o) and full[len(full) - len(o):] != o:
            return True
    return False


def describe(val):
    return {"type": val.tname, "rdtype": val.rdtype, "rdclass": val.rdclass, "args": core.jsonable([repr(a) if isinstance(a, GR.NameRef) else a for a in val.args])}


def check_roundtrip(ctx, val, origin):
    """val: GR.Val; origin: labels or None"""
    ctx.count("evaluations")
    case = {"kind": "rt", "type": val.tname, "rdtype": val.rdtype, "rdclass": val.rdclass, "origin": list(origin) if origin else None, "seedinfo": describe(val), "pickle": pickle.dumps((val, origin)).hex()}
    t = val.tname
    try:
        rd = GR.build(val)
    except Exception as e:
        ctx.violation(f"constructor-rejects-wellformed:{t}:" + core.exc_sig(e), f"{describe(val)}: {e!r}", case)
        return None
    o = mkname(origin) if origin else None
    try:
        ref = GR.ref_wire(val.parts, origin)
        ctx.count("mon.ref_encode")
        w = rd.to_wire(origin=o)
        if w != ref:
            ctx.violation(f"encode-differs-from-reference:{t}", f"{describe(val)} lib={w.hex()} ref={ref.hex()}", dict(case, wire=ref))
            return None
        if len(w) > 65535:
            return None
        ctx.count("mon.roundtrip")
        ctx.seen(("rt", t, val.tags, origin is None))
        ctx.table("types_roundtrip", t)
        # decode with no origin, the rendering origin, an unrelated origin
        pre = bytes(ctx.rng.randrange(256) for _ in range(ctx.rng.choice((0, 3, 17))))
        post = bytes(ctx.rng.randrange(256) for _ in range(ctx.rng.choice((0, 2, 9))))
        buf = pre + w + post
        for mode in ("none", "same", "unrelated"):
            if mode == "same" and o is None:
                continue
            do = {"none": None, "same": o, "unrelated": mkname(UNREL)}[mode]
            rd2 = dns.rdata.from_wire(val.rdclass, val.rdtype, buf, len(pre), len(w), do)
            if t in ("TSIG", "OPT"):
                expect = rd  # TSIG ignores the decode origin: its names stay absolute even when they happen to lie under it (TKEY honours it)
            elif mode == "same":
                expect = GR.build(normalized(val, origin, "norm"))
            elif origin is not None:
                expect = GR.build(normalized(val, origin, "full"))
            else:
                expect = rd
            if not (rd2 == expect) or rd2 != expect:
                ctx.violation(f"decode-not-equal:{t}:{mode}", f"{describe(val)} wire={w.hex()} decoded={rd2!r} expected={expect!r}", dict(case, wire=w))
                continue
            if hash(rd2) != hash(expect):
                ctx.violation(f"equal-records-hash-differently:{t}", f"{describe(val)}", dict(case, wire=w))
            w2 = rd2.to_wire(origin=do if mode == "same" else None)
            if w2 != w and mode == "same" and case_variant_of_origin(val, origin):
                # a name under the origin only up to ASCII case takes the origin's spelling after
                # relativization: the same DNS name, not byte-identical (interpretive decision, DESIGN C02)
                ctx.count("obs.origin_case_variant")
                parts2 = []
                for part in val.parts:
                    if isinstance(part, GR.NameRef):
                        full = part.labels if part.labels and part.labels[-1] == b"" else part.labels + tuple(origin)
                        if RN.is_subdomain(full, tuple(origin)):
                            full = full[: len(full) - len(origin)] + tuple(origin)
                        part = GR.NameRef(full, part.comp, part.down)
                    parts2.append(part)
                if w2 != GR.ref_wire(parts2, origin):
                    ctx.violation(f"reencode-not-equal:{t}:{mode}", f"{describe(val)} first={w.hex()} second={w2.hex()}", dict(case, wire=w))
            elif w2 != w:
                ctx.violation(f"reencode-not-byte-identical:{t}:{mode}", f"{describe(val)} first={w.hex()} second={w2.hex()}", dict(case, wire=w))
            # surrounding bytes must not matter
            buf2 = b"\xc0\x00" * 3 + w + b"\x00"
            rd3 = dns.rdata.from_wire(val.rdclass, val.rdtype, buf2, 6, len(w), do)
            if rd3 != rd2:
                ctx.violation(f"decode-depends-on-surrounding-bytes:{t}", f"{describe(val)}", dict(case, wire=w))
        # generic (RFC 3597) view of the same octets
        g = rd.to_generic(origin=o)
        if g.to_wire() != w or g.rdtype != val.rdtype or g.rdclass != val.rdclass:
            ctx.violation(f"generic-view-differs:{t}", f"{describe(val)}", dict(case, wire=w))
        # compressed rendering inside a message-like buffer (names that may be compressed point into the prefix)
        if any(n.comp for n in val.names()):
            f = io.BytesIO()
            f.write(b"\x00" * 12)
            table = {}
            for n in val.names():
                labels = n.labels if n.labels and n.labels[-1] == b"" else n.labels + tuple(origin)
                if len(labels) > 1 and ctx.rng.random() < 0.7:
                    mkname(labels[ctx.rng.randrange(len(labels) - 1):]).to_wire(f, table, None)
            start = f.tell()
            rd.to_wire(f, table, o)
            cbuf = f.getvalue()
            rdlen = len(cbuf) - start
            rd4 = dns.rdata.from_wire(val.rdclass, val.rdtype, cbuf + b"\xff\xff", start, rdlen, None)
            expect = GR.build(normalized(val, origin, "full")) if origin is not None else rd
            if rd4 != expect:
                ctx.violation(f"compressed-decode-not-equal:{t}", f"{describe(val)} buf={cbuf.hex()} start={start}", dict(case, wire=w))
            else:
                ctx.count("mon.compressed_rdata")
                if rdlen < len(w):
                    ctx.count("obs.rdata_actually_compressed")
            if rdlen > len(w):
                ctx.violation(f"compressed-longer-than-plain:{t}", f"{describe(val)}", dict(case, wire=w))
        elif val.names():
            # types whose names must never be compressed: rendering with a table must give the plain bytes
            f = io.BytesIO()
            table = {}
            f.write(b"\x00" * 12)
            for n in val.names():
                labels = n.labels if n.labels and n.labels[-1] == b"" else n.labels + tuple(origin)
                if len(labels) > 1:
                    mkname(labels).to_wire(f, table, None)
            start = f.tell()
            rd.to_wire(f, table, o)
            if f.getvalue()[start:] != w:
                # RFC 3597 §4 forbids it for types outside RFC 1035, but the result is still a sound encoding
                # and C02 does not speak about it: observation only (LP and TKEY do this today)
                ctx.table("obs_compresses_although_rfc3597_type", t)
            ctx.count("mon.uncompressed_rdata")
        return w
    except dns.exception.DNSException as e:
        ctx.violation(f"roundtrip-raised:{t}:" + core.exc_sig(e), f"{describe(val)}: {e!r}", case)
    except Exception as e:
        ctx.violation(f"roundtrip-foreign:{t}:" + core.exc_sig(e), f"{describe(val)}: {e!r}", case)
    return None


# ------------------------------------------------------------------------------------------ hostile


def mutate(rng, w):
    b = bytearray(w)
    k = rng.choice(("flip", "flip", "byte", "byte", "trunc", "extend", "del", "dup", "len", "splice", "zero", "ff", "ptr"))
    if not b and k not in ("extend",):
        k = "extend"
    if k == "flip":
        i = rng.randrange(len(b))
        b[i] ^= 1 << rng.randrange(8)
    elif k == "byte":
        b[rng.randrange(len(b))] = rng.choice((0, 1, 0x3F, 0x40, 0x7F, 0x80, 0xBF, 0xC0, 0xFF, rng.randrange(256)))
    elif k == "trunc":
        del b[rng.randrange(len(b)):]
    elif k == "extend":
        b += bytes(rng.randrange(256) for _ in range(rng.choice((1, 1, 2, 5))))
    elif k == "del":
        i = rng.randrange(len(b))
        del b[i: i + rng.choice((1, 1, 2, 4))]
    elif k == "dup":
        i = rng.randrange(len(b))
        j = min(len(b), i + rng.choice((1, 2, 4, 8)))
        b[i:i] = b[i:j]
    elif k == "len":
        i = rng.randrange(len(b))
        b[i] = (b[i] + rng.choice((-1, 1, 2, 127))) & 0xFF
    elif k == "splice":
        i = rng.randrange(len(b))
        b[i:i] = rng.choice((b"\x00", b"\xc0\x00", b"\x01a\x00", b"\xc0\x0c", b"\x3f" + b"a" * 63))
    elif k == "zero":
        i = rng.randrange(len(b))
        b[i:] = b"\x00" * (len(b) - i)
    elif k == "ff":
        i = rng.randrange(len(b))
        b[i:] = b"\xff" * (len(b) - i)
    elif k == "ptr":
        i = rng.randrange(len(b))
        b[i:i + 2] = bytes([0xC0 | rng.randrange(0x40), rng.randrange(256)])
    return bytes(b), k


def check_hostile(ctx, spy, rdclass, rdtype, tname, data, mk):
    ctx.count("evaluations")
    ctx.count("mon.hostile_decode")
    case = {"kind": "hostile", "rdclass": rdclass, "rdtype": rdtype, "type": tname, "data": data}
    pre = b"\x03abc\x03DEF\x00\x02xy\xc0\x04"  # decodable names the hostile pointers may hit
    buf = pre + data + b"\x05tail!"
    off = len(pre)
    # (a) public API
    spy.begin(budget=200 * (len(buf) + 10))
    try:
        with core.case_guard(20):
            rd = dns.rdata.from_wire(rdclass, rdtype, buf, off, len(data), None)
        outcome = "ok"
    except dns.exception.FormError as e:
        rd = None
        outcome = "FormError"
    except dns.exception.DNSException as e:
        ctx.violation(f"hostile-decode-wrong-family:{tname}:" + core.exc_sig(e), f"type {tname} data={data.hex()}: {e!r}", case)
        return
    except (core.StepBudgetExceeded, core.CaseTimeout) as e:
        ctx.violation(f"hostile-decode-does-not-terminate:{tname}", f"type {tname} data={data.hex()}: {e!r}", case)
        return
    except Exception as e:
        ctx.violation(f"hostile-decode-foreign:{tname}:" + core.exc_sig(e), f"type {tname} data={data.hex()}: {e!r}", case)
        return
    finally:
        spy.end()
    if spy.max_read_end > off + len(data):
        ctx.violation(f"decode-read-beyond-rdlen:{tname}", f"type {tname} data={data.hex()} read up to {spy.max_read_end - off} of {len(data)}", case)
    # (b) own parser, own restriction: did the type's decoder consume exactly rdlen?
    ctx.count("mon.consumed_exactly")
    p = dns.wire.Parser(buf, off)
    p.end = off + len(data)
    consumed = None
    try:
        rd_b = dns.rdata.from_wire_parser(rdclass, rdtype, p, None)
        consumed = p.current - off
    except dns.exception.DNSException:
        rd_b = None
    except Exception as e:
        ctx.violation(f"hostile-decode-foreign:{tname}:" + core.exc_sig(e), f"type {tname} data={data.hex()}: {e!r}", case)
        return
    if rd is not None and (rd_b is None or consumed != len(data)):
        ctx.violation(f"accepted-without-consuming-rdlen:{tname}", f"type {tname} data={data.hex()} consumed={consumed} rdlen={len(data)}", case)
        return
    if rd is None and rd_b is not None and consumed == len(data):
        ctx.violation(f"rejected-although-decoder-consumed-all:{tname}", f"type {tname} data={data.hex()}", case)
        return
    ctx.seen(("host", tname, mk, outcome))
    ctx.table("hostile_outcomes", f"{tname}:{outcome}")
    if rd is None:
        return
    # fixed point
    ctx.count("mon.fixed_point")
    try:
        w2 = rd.to_wire()
        rd2 = dns.rdata.from_wire(rdclass, rdtype, w2, 0, len(w2), None)
        if rd2 != rd:
            ctx.violation(f"accepted-record-not-equal-after-reencode:{tname}", f"type {tname} data={data.hex()} w2={w2.hex()} rd={rd!r} rd2={rd2!r}", case)
        w3 = rd2.to_wire()
        if w3 != w2:
            ctx.violation(f"accepted-record-encoding-not-fixed-point:{tname}", f"type {tname} data={data.hex()} w2={w2.hex()} w3={w3.hex()}", case)
        if hash(rd2) != hash(rd):
            ctx.violation(f"equal-records-hash-differently:{tname}", f"type {tname} data={data.hex()}", case)
    except dns.exception.DNSException as e:
        ctx.violation(f"accepted-record-cannot-reencode:{tname}:" + core.exc_sig(e), f"type {tname} data={data.hex()}: {e!r}", case)
    except Exception as e:
        ctx.violation(f"accepted-record-reencode-foreign:{tname}:" + core.exc_sig(e), f"type {tname} data={data.hex()}: {e!r}", case)


def run(spec, ctx):
    rng = ctx.rng
    spy = ParserSpy().install()
    try:
        corpus = {}
        # lookup-history independence: the implementation class of (class, type) is resolved lazily and cached per process.
        # This shard process is fresh, so for half of its types the very first lookup is made in a class that has no
        # implementation of the type; the round trips below then run on whatever the cache holds.
        for t in spec["types"]:
            rdclass, rdtype, _ = GR.TABLE[t]
            if t != "UNKNOWN" and rng.random() < 0.5:
                foreign = rng.choice((3, 4, 254, 255, 65280))
                if foreign != rdclass:
                    ctx.count("mon.first_lookup_in_foreign_class")
                    dns.rdata.get_rdata_class(foreign, rdtype)
                    cls = dns.rdata.get_rdata_class(rdclass, rdtype)
                    if cls is dns.rdata.GenericRdata:
                        ctx.violation(f"implementation-class-depends-on-lookup-history:{t}", f"first lookup in class {foreign}, then class {rdclass} gives GenericRdata", {"kind": "lookup", "type": t, "foreign": foreign})
        for t in spec["types"]:
            corpus[t] = []
            for i in range(spec["n_rt"]):
                if ctx.expired(0.45):
                    break
                use_origin = rng.random() < 0.5
                origin = GN.origin(rng, plain=True) if use_origin else None
                if origin == (b"",):
                    origin = (b"example", b"")
                val = GR.gen(rng, t, origin, relative_ok=use_origin, opaque_padding=True)
                w = check_roundtrip(ctx, val, origin)
                if w is not None:
                    corpus[t].append((val.rdclass, val.rdtype, w))
                    if i == 0 and len(ctx.samples) < 4:
                        ctx.sample({"type": t, "wire": w.hex(), "tags": val.tags})
        for t in spec["types"]:
            items = corpus.get(t) or []
            for i in range(spec["n_host"]):
                if ctx.expired(1.0):
                    break
                r = rng.random()
                if items and r < 0.8:
                    rdclass, rdtype, w = rng.choice(items)
                    data, mk = mutate(rng, w)
                    if rng.random() < 0.3:
                        data, mk2 = mutate(rng, data)
                        mk = mk + "+" + mk2
                else:
                    rdclass, rdtype, _ = GR.TABLE[t]
                    if t == "UNKNOWN":
                        rdtype = rng.choice((65280, 300))
                    data = bytes(rng.randrange(256) for _ in range(rng.choice((0, 1, 2, 4, 8, 16, 40))))
                    mk = "random"
                check_hostile(ctx, spy, rdclass, rdtype, t, data, mk)
    finally:
        spy.uninstall()


def replay(case, ctx):
    spy = ParserSpy().install()
    try:
        if case["kind"] == "hostile":
            check_hostile(ctx, spy, case["rdclass"], case["rdtype"], case["type"], case["data"], "replay")
        else:
            if case.get("pickle"):
                val, origin = pickle.loads(bytes.fromhex(case["pickle"]))
                check_roundtrip(ctx, val, origin)
                return
            # round-trip witnesses replay from the reference wire: decode, compare re-encoding
            w = case.get("wire")
            if w is None:
                ctx.notes.append("no wire recorded")
                return
            ctx.count("mon.roundtrip")
            try:
                rd = dns.rdata.from_wire(case["rdclass"], case["rdtype"], w, 0, len(w), None)
                if rd.to_wire() != w:
                    ctx.violation(f"reencode-not-byte-identical:{case['type']}:none", f"wire={w.hex()} second={rd.to_wire().hex()}", case)
            except Exception as e:
                ctx.violation(f"roundtrip-raised:{case['type']}:" + core.exc_sig(e), repr(e), case)
    finally:
        spy.uninstall()
