"""C03 — messages survive render-then-parse unchanged; compression is sound."""

import struct

import dns.exception
import dns.flags
import dns.message
import dns.name
import dns.opcode
import dns.rdata
import dns.renderer

from vlib import core
from vlib.gen import messages as GM
from vlib.ref import names as RN
from vlib.ref import wirewalk as WW

PROP = "C03"
LEVEL = "exploration"
RULE = (
    "messages built through the public API (queries, responses, NOTIFY, every other opcode, dynamic updates in all "
    "add/replace/delete/present/absent forms; all flag bits; rcodes 0-4095; EDNS versions/flags/payloads/option lists; RRsets "
    "of every record type in every section with owner/rdata names drawn from a shared-suffix pool; optional relativization "
    "against an origin; messages beyond 16 KiB) are rendered, walked by an independent wire walker, parsed back and re-rendered. "
    "Distinct by (kind, opcode, rcode class, non-empty-section pattern, EDNS state, size class, origin mode)."
)
RULE += " " + (
    "Also: data-less update forms carry TTL 0 on the wire; the message assembled by hand with Renderer gives the octets of to_wire; signature RRsets without explicit covers."
)
ASSUMPTIONS = [
    "reference wire walker vlib/ref/wirewalk.py and reference name decoder",
    "record equality is judged on the wire view (owner, wire class, type, covers, ttl, set of rdata encodings); rdata inside sections is decoded with dns.rdata.from_wire (decided by C02)",
]
REQUIRED = ["mon.renderer_by_hand_identical", "mon.roundtrip", "mon.walker_counts", "mon.rerender_identical", "mon.compress_entry", "mon.compress_hit", "mon.index_lookup", "mon.structural_rejection"]
BUDGET = {"quick": 45.0, "thorough": 480.0}


def shards(tier, seed):
    mult = 1 if tier == "quick" else 40
    return [{"n": 160 * mult} for _ in range(16)]


class SpyCompress(dict):
    def __init__(self):
        super().__init__()
        self.inserts = []
        self.hits = []

    def __setitem__(self, k, v):
        self.inserts.append((k, v))
        super().__setitem__(k, v)

    def get(self, k, d=None):
        v = super().get(k, d)
        if v is not None:
            self.hits.append((k, v))
        return v


class RendererSpy:
    def __init__(self):
        self.tables = []

    def install(self):
        spy = self
        self.orig = dns.renderer.Renderer.__init__

        def __init__(self, *a, **k):
            spy.orig(self, *a, **k)
            if isinstance(getattr(self, "compress", None), dict):
                t = SpyCompress()
                t.update(self.compress)
                self.compress = t
                spy.tables.append(t)

        dns.renderer.Renderer.__init__ = __init__
        return self

    def uninstall(self):
        dns.renderer.Renderer.__init__ = self.orig


def check_compression(ctx, table, w, case, tag="", hits=True):
    """every hit and every surviving insertion decodes (reference decoder) to the keyed suffix"""
    for k, off in (table.hits if hits else ()):
        ctx.count("mon.compress_hit")
        if off > 0x3FFF or off >= len(w):
            ctx.violation("compress-pointer-target-out-of-range" + tag, f"{k} -> {off} len={len(w)}", case)
            return False
        try:
            labels, _ = RN.from_wire(w, off)
        except RN.RefError as e:
            ctx.violation("compress-pointer-target-undecodable" + tag, f"{k} -> {off}: {e}", case)
            return False
        if not RN.equal(labels, k.labels):
            ctx.violation("compress-pointer-targets-different-name" + tag, f"{k} -> {off} decodes to {RN.to_text(labels)}", case)
            return False
    for k, off in table.items():
        ctx.count("mon.compress_entry")
        if off >= len(w) or off > 0x3FFF:
            ctx.violation("compress-table-entry-beyond-message" + tag, f"{k} -> {off} len={len(w)}", case)
            return False
        try:
            labels, _ = RN.from_wire(w, off)
        except RN.RefError as e:
            ctx.violation("compress-table-entry-undecodable" + tag, f"{k} -> {off}: {e}", case)
            return False
        if not RN.equal(labels, k.labels):
            ctx.violation("compress-table-entry-wrong-target" + tag, f"{k} -> {off} decodes to {RN.to_text(labels)}", case)
            return False
    return True


def walker_view(w, walk, update):
    """record view from the independent walker; rdata decoded by dns.rdata.from_wire on the message bytes"""
    out = [[(tuple(RN.fold(l) for l in labels), c, t) for labels, t, c in walk["questions"]]]
    zone_class = walk["questions"][0][2] if (update and walk["questions"]) else None
    for si, recs in enumerate(walk["records"]):
        sec = {}
        order = []
        for labels, t, c, ttl, off, rdlen in recs:
            if t in (41, 250):
                continue
            rdclass = c
            if update and c in (255, 254):
                rdclass = zone_class
            if rdlen == 0 and update and (c == 255 or (c == 254 and si == 0)):
                rdw = None
                covers = 0
            else:
                rd = dns.rdata.from_wire(rdclass, t, w, off, rdlen)
                rdw = rd.to_wire()
                covers = int(rd.covers())
            key = (tuple(RN.fold(l) for l in labels), c, t, covers)
            if key not in sec:
                sec[key] = [None, set()]
                order.append(key)
            if rdw is not None:
                sec[key][1].add(rdw)
                sec[key][0] = ttl if sec[key][0] is None else min(sec[key][0], ttl)
        out.append([(k[0], k[1], k[2], k[3], (sec[k][0] or 0) if sec[k][1] else 0, frozenset(sec[k][1])) for k in order])
    return out


def wire_class_only(view):
    return [view[0]] + [[(o, c[0], t, cov, ttl, rds) for (o, c, t, cov, ttl, rds) in recs] for recs in view[1:]]


def merge_view(view):
    """merge RRsets with the same key inside a section (the parser does; update messages keep one RR per RRset)"""
    out = [sorted(view[0])]
    for recs in view[1:]:
        d = {}
        for owner, c, t, cov, ttl, rds in recs:
            k = (owner, c, t, cov)
            if k in d:
                # RRs of one RRset may carry different TTLs in update messages: the view keeps the minimum
                ttls = [x for x, r in ((d[k][0], d[k][1]), (ttl, rds)) if r]
                d[k] = (min(ttls) if ttls else 0, d[k][1] | rds)
            else:
                d[k] = (ttl if rds else 0, rds)
        out.append(sorted((k[0], k[1], k[2], k[3], v[0], v[1]) for k, v in d.items()))
    return out


def relative_collision(w, origin):
    """diagnosis: does some RRset hold two different records whose relativized forms compare equal?"""
    try:
        mabs = dns.message.from_wire(w, one_rr_per_rrset=False)
    except Exception:
        return False
    for sec in mabs.sections[1:]:
        for rr in sec:
            seen = {}
            for rd in rr:
                aw = rd.to_wire()
                rel = dns.rdata.from_wire(rd.rdclass, rd.rdtype, aw, 0, len(aw), origin)
                k = (rel.to_digestable(dns.name.root))
                if k in seen and seen[k] != aw:
                    return True
                seen[k] = aw
    return False


def check_message(ctx, spy, m, info):
    ctx.count("evaluations")
    case = {"kind": "msg", "info": info, "text": None}
    update = dns.opcode.is_update(m.flags)
    try:
        case["text"] = m.to_text()[:3000]
    except Exception:
        pass
    try:
        spy.tables.clear()
        w = m.to_wire(max_size=65535)
    except dns.exception.TooBig:
        ctx.count("obs.too_big_skipped")
        return
    except Exception as e:
        ctx.violation("render-raised:" + core.exc_sig(e), repr(e), case)
        return
    case["wire"] = w
    table = spy.tables[-1] if spy.tables else None
    ctx.count("mon.roundtrip")
    nonempty = tuple(bool(s) for s in m.sections)
    ctx.seen(("msg", info["kind"], int(m.opcode()), min(int(m.rcode()), 16), nonempty, info["edns"], len(w) > 0x3FFF, info.get("origin") is not None))
    ctx.table("kinds", info["kind"])
    try:
        # --- independent walker: header counts = records present; owners decodable
        walk = WW.walk(w)
        ctx.count("mon.walker_counts")
        if walk["end"] != len(w):
            ctx.violation("rendered-message-has-trailing-or-missing-bytes", f"walker end {walk['end']} len {len(w)}", case)
        want_counts = tuple(m.section_count(i) for i in range(4))
        if walk["counts"] != want_counts:
            ctx.violation("header-counts-differ-from-section_count", f"header {walk['counts']} section_count {want_counts}", case)
        if walk["id"] != m.id:
            ctx.violation("header-id-differs", f"{walk['id']} vs {m.id}", case)
        collide = GM.has_case_collision(m)
        norm = (lambda v: merge_view(GM.fold_view(v))) if collide else merge_view
        if collide:
            ctx.count("obs.case_collision_messages")
        if update:
            # RFC 2136 2.4 / 2.5: the data-less forms (class ANY, class NONE without RDATA) carry TTL 0, whatever TTL attribute the
            # object they were rendered from happens to have
            ctx.count("mon.update_dataless_forms_ttl")
            for si, recs in enumerate(walk["records"][:2]):
                for labels, t, c, ttl, off, rdlen in recs:
                    if rdlen == 0 and c in (254, 255) and ttl != 0:
                        ctx.violation("update-data-less-form-rendered-with-a-ttl", f"section {si + 1}: class {c} type {t} TTL {ttl}", case)
                        break
        want_view = norm(GM.wire_view(m))
        got_view = norm(walker_view(w, walk, update))
        want_wire = norm(wire_class_only(GM.wire_view(m)))  # the independent walker sees the class on the wire only
        if got_view != want_wire:
            for i in range(4):
                if got_view[i] != want_wire[i]:
                    ctx.violation(f"wire-records-differ-from-message:section{i}", f"walker {got_view[i][:3]!r}\nwant {want_wire[i][:3]!r}", case)
                    break
        # OPT presence on the wire; EDNS version and extended rcode per RFC 6891 §6.1.3 read off the raw bytes
        ad = walk["records"][2]
        opts = [r for r in ad if r[1] == 41]
        if len(opts) != (1 if m.opt is not None else 0):
            ctx.violation("opt-record-count-wrong", f"{len(opts)}", case)
        wire_rcode = walk["flags"] & 0xF
        if opts:
            labels, t, c, ttl, off, rdlen = opts[0]
            wire_rcode |= (ttl >> 24) << 4
            wire_version = (ttl >> 16) & 0xFF
            if labels != (b"",):
                ctx.violation("opt-owner-not-root", f"{labels!r}", case)
            if wire_version != info["edns"]:
                ctx.violation("edns-version-on-wire-differs-from-requested", f"wire {wire_version} requested {info['edns']}", case)
        if wire_rcode != info["rcode"] or int(m.rcode()) != info["rcode"]:
            ctx.violation("rcode-on-wire-or-api-differs-from-set", f"set {info['rcode']} api {int(m.rcode())} wire {wire_rcode}", case)
        if m.edns != info["edns"]:
            ctx.violation("edns-version-api-differs-from-requested", f"{m.edns} vs {info['edns']}", case)
        # --- compression soundness
        if table is not None:
            check_compression(ctx, table, w, case)
        # --- parse back with the library
        m2 = dns.message.from_wire(w, origin=m.origin)
        problems = []
        if m2.id != m.id:
            problems.append("id")
        if int(m2.flags) != int(m.flags):
            problems.append("flags")
        if m2.opcode() != m.opcode():
            problems.append("opcode")
        if m2.rcode() != m.rcode():
            problems.append("rcode")
        if m2.edns != m.edns:
            problems.append("edns")
        if m2.ednsflags != m.ednsflags:
            problems.append("ednsflags")
        if m2.payload != m.payload:
            problems.append("payload")
        if list(m2.options) != list(m.options):
            problems.append("options")
        if problems:
            ctx.violation("parsed-header-or-edns-differs:" + "+".join(problems), f"flags {int(m.flags):#x}->{int(m2.flags):#x} rcode {m.rcode()}->{m2.rcode()} edns {m.edns}->{m2.edns} ednsflags {m.ednsflags:#x}->{m2.ednsflags:#x} payload {m.payload}->{m2.payload}", case)
        pv = norm(GM.wire_view(m2, m.origin))
        if pv != want_view and m.origin is not None and relative_collision(w, m.origin):
            # two records that differ only by "origin name" vs "root" in a name field become equal once the
            # parser relativizes them (Rdata.__eq__ derelativizes against the root): one of them is lost
            ctx.violation("relativized-parse-merges-records-differing-only-in-origin-vs-root", "", case)
        elif pv != want_view:
            for i in range(4):
                if pv[i] != want_view[i]:
                    ctx.violation(f"parsed-records-differ:section{i}", f"parsed {pv[i][:3]!r}\nwant {want_view[i][:3]!r}", case)
                    break
        if not update and m.origin is None:
            # absolute names: the library's own equality must hold (it ignores the additional section's OPT/TSIG)
            merged_ok = all(len({(r.name, r.rdclass, r.rdtype, r.covers) for r in s}) == len(s) for s in m.sections[1:])
            if merged_ok and not collide and not (m2 == m):
                ctx.violation("parsed-message-not-equal-to-original", "", case)
        # index lookups: every RRset must be found under its full key (name, class, type, covers, deleting)
        for mm in (m, m2):
            for si, sec in enumerate(mm.sections):
                if si == 0:
                    continue
                for rr in sec:
                    ctx.count("mon.index_lookup")
                    try:
                        found = mm.find_rrset(si, rr.name, rr.rdclass, rr.rdtype, rr.covers, rr.deleting)
                    except KeyError:
                        ctx.violation("find_rrset-misses-present-rrset", f"{rr!r}", case)
                        continue
                    if not found.full_match(rr.name, rr.rdclass, rr.rdtype, rr.covers, rr.deleting):
                        ctx.violation("find_rrset-returns-rrset-with-different-key", f"asked {rr!r} got {found!r}", case)
        relcol = m.origin is not None and pv != want_view and relative_collision(w, m.origin)
        for i in range(4):
            if m2.section_count(i) != walk["counts"][i] and not relcol:
                if collide and m2.section_count(i) < walk["counts"][i]:
                    # two records of one RRset that differ only in the letter case of a name the compressor shares (types
                    # outside RFC 4034 6.2 compare case-sensitively): they leave as the same octets and come back as one
                    ctx.count("obs.case_variant_records_merged_by_compression")
                    continue
                ctx.violation("parsed-section_count-differs-from-header", f"section {i}", case)
        # --- second rendering without shuffling reproduces the bytes
        ctx.count("mon.rerender_identical")
        spy.tables.clear()
        w2 = m2.to_wire(max_size=65535, want_shuffle=False)
        m3 = dns.message.from_wire(w2, origin=m.origin)
        w3 = m3.to_wire(max_size=65535, want_shuffle=False)
        if w3 != w2:
            ctx.violation("rerender-without-shuffle-not-byte-identical", f"first diff at {next((i for i in range(min(len(w2), len(w3))) if w2[i] != w3[i]), min(len(w2), len(w3)))} len {len(w2)} vs {len(w3)}", dict(case, wire=w2))
        if spy.tables:
            check_compression(ctx, spy.tables[-1], w3, case, ":rerender")
        # --- the same message assembled by hand with dns.renderer.Renderer (add_question / add_rrset / add_edns, the spelling the
        # class documents) gives the same octets as Message.to_wire
        if m2.tsig is None and not m2.pad:
            ctx.count("mon.renderer_by_hand_identical")
            r = dns.renderer.Renderer(m2.id, int(m2.flags), 65535, m.origin)
            for qq in m2.question:
                r.add_question(qq.name, qq.rdtype, qq.rdclass)
            for si, sec in ((dns.renderer.ANSWER, m2.answer), (dns.renderer.AUTHORITY, m2.authority), (dns.renderer.ADDITIONAL, m2.additional)):
                for rr in sec:
                    r.add_rrset(si, rr, want_shuffle=False)
            if m2.edns >= 0:
                r.add_edns(m2.edns, m2.ednsflags, m2.payload, m2.options)
            r.write_header()
            wh = r.get_wire()
            if wh != w2:
                d = next((i for i in range(min(len(wh), len(w2))) if wh[i] != w2[i]), min(len(wh), len(w2)))
                ctx.violation("renderer-used-by-hand-differs-from-to_wire:" + ("edns" if m2.edns >= 0 else "no-edns") + (":extended-rcode" if int(m2.rcode()) > 15 else ""), f"first difference at {d}, lengths {len(wh)} / {len(w2)}", dict(case, wire=w2))
        # one_rr_per_rrset parse carries the same records
        m4 = dns.message.from_wire(w, origin=m.origin, one_rr_per_rrset=True)
        if norm(GM.wire_view(m4, m.origin)) != want_view and not relcol:
            ctx.violation("one_rr_per_rrset-parse-differs", "", case)
    except WW.WalkError as e:
        ctx.violation("rendered-message-not-walkable", str(e), case)
    except dns.exception.DNSException as e:
        ctx.violation("roundtrip-raised:" + core.exc_sig(e), repr(e), case)
    except Exception as e:
        ctx.violation("roundtrip-foreign:" + core.exc_sig(e), repr(e), case)


def check_structural_rejections(ctx, rng):
    """crafted messages the parser must refuse: OPT not owned by the root, OPT outside the additional section, two OPTs"""
    ctx.count("evaluations")
    hdr = lambda an, ad: struct.pack("!HHHHHH", 7, 0x8000, 0, an, 0, ad)
    opt_root = b"\x00" + struct.pack("!HHIH", 41, 1232, 0, 0)
    opt_named = b"\x01a\x00" + struct.pack("!HHIH", 41, 1232, 0, 0)
    cases = {
        "opt-owner-not-root": hdr(0, 1) + opt_named,
        "opt-in-answer-section": hdr(1, 0) + opt_root,
        "two-opt-records": hdr(0, 2) + opt_root + opt_root,
    }
    for name, w in cases.items():
        ctx.count("mon.structural_rejection")
        try:
            dns.message.from_wire(w)
            ctx.violation(f"malformed-edns-accepted:{name}", w.hex(), {"kind": "crafted", "wire": w})
        except dns.exception.DNSException:
            pass
        except Exception as e:
            ctx.violation(f"malformed-edns-foreign:{name}:" + core.exc_sig(e), w.hex(), {"kind": "crafted", "wire": w})
    # sanity: the well-formed variant is accepted
    try:
        m = dns.message.from_wire(hdr(0, 1) + opt_root)
        if m.edns != 0:
            ctx.violation("wellformed-opt-not-recognised", "", None)
    except Exception as e:
        ctx.violation("wellformed-opt-rejected:" + core.exc_sig(e), "", None)


def run(spec, ctx):
    rng = ctx.rng
    spy = RendererSpy().install()
    try:
        for i in range(spec["n"]):
            if ctx.expired(1.0):
                break
            size = rng.choice(("small", "small", "medium", "medium", "large"))
            try:
                m, info = GM.gen_message(rng, size=size)
            except Exception as e:
                ctx.count("evaluations")
                ctx.violation("message-construction-through-api-raised:" + core.exc_sig(e), repr(e), None)
                continue
            if i % 8 == 0:
                check_structural_rejections(ctx, rng)
            check_message(ctx, spy, m, info)
            if i < 1:
                ctx.sample({"info": info, "text": m.to_text()[:400]})
    finally:
        spy.uninstall()


def replay(case, ctx):
    w = case.get("wire")
    if w is None:
        ctx.notes.append("no wire recorded")
        return
    spy = RendererSpy().install()
    try:
        origin = dns.name.from_text(case["info"]["origin"]) if case["info"].get("origin") else None
        m = dns.message.from_wire(w, origin=origin)
        check_message(ctx, spy, m, dict(case["info"]))
    finally:
        spy.uninstall()
