"""C04 — untrusted wire or text input only ever raises the library's own errors."""

import io

import dns.btreezone
import dns.edns
import os
import struct

import dns.exception
import dns.message
import dns.name
import dns.rdata
import dns.rdataset
import dns.rdatatype
import dns.tsig
import dns.rrset
import dns.tokenizer
import dns.ttl
import dns.versioned
import dns.zone
import dns.zonefile

from vlib import core
from vlib.gen import messages as GM
from vlib.gen import names as GN
from vlib.gen import rdata as GR
from vlib.gen import zones as GZ
from vlib.mon.hooks import ParserSpy, classify_exception
from vlib.ref import names as RN
from checks.c01 import hostile_buffer
from checks.c02 import mutate as mutate_bytes

PROP = "C04"
LEVEL = "exploration"
RULE = (
    "structure-aware and blind mutations of valid artefacts (messages of every kind incl. TSIG-signed and EDNS, names, RDATA "
    "of every type, EDNS options, presentation-format names/records/TTLs/rdatasets, zone files with directives, message text) "
    "plus adversarial atoms (\\DDD >= 256, escapes before digits, empty quoted strings in every token position, huge numbers, "
    "Unicode digits, unbalanced parentheses, $-directives with missing arguments) and random strings, through every parser "
    "entry point and option combination, under an exception-family monitor, a parser/tokenizer step budget and a per-case wall "
    "backstop; every returned value is re-rendered (text, wire, repr, hash, ==) under the same monitor. Distinct by (entry point, "
    "outcome class, exception class, innermost dns.* function)."
)
RULE += " " + (
    "Also: keyrings in every documented form with the TSIG algorithm field altered; exactly-one-damaged-record messages in continue-on-error mode (one failure, offset inside that record, all other records delivered); escape digits that are digits but not decimal; zone files as octets that are not UTF-8 (bytes and file). Accepted TTLs fit 32 bits."
)
ASSUMPTIONS = [
    "violation = exception that is not a dns.exception.DNSException subclass (documented ValueError/KeyError raised from the zone-semantic layer excepted); the narrow FormError / SyntaxError family is demanded only where the API promises it (dns.rdata.from_wire / from_text)",
    "$GENERATE ranges are capped by the generator (a documented huge loop is not a hang); inputs <= 64 KiB",
]
REQUIRED = ["mon.structured_message_mutations", "ep.message.from_wire", "ep.name.from_wire", "ep.rdata.from_wire", "ep.edns.option_from_wire", "ep.name.from_text", "ep.rdata.from_text",
            "ep.ttl.from_text", "ep.zone.from_text", "ep.zonefile.read_rrsets", "ep.message.from_text", "ep.rrset.from_text", "mon.rerender", "mon.continue_on_error", "mon.continue_on_error_one_damaged_record", "mon.keyring_of_bare_secrets", "mon.zone_octets_not_utf8"]
BUDGET = {"quick": 50.0, "thorough": 480.0}

ATOMS = ["\\300", "\\256", "\\999", "\\00", "\\0", "\\", "\\1a2", '""', '"', "(", ")", "((", "))", ";", "$TTL", "$ORIGIN", "$GENERATE", "$INCLUDE", "$UNICODE", "$",
         "9" * 5000, "99999999999999999999", "-1", "٣", "²", "1e9", "0x10", "\x00", "​", "é", "\\# 0", "\\# 1", "\\# 2 00", "\\#", "@", ".", "..", "a..b",
         "7102w", "49711d", "4294967296s", "1w4294967295s", "71582788m1s", "7101w", "4294967295s",
         "x" * 64, "y" * 300, "TYPE0", "TYPE65536", "CLASS70000", "TYPE", "1w2d3h4m5s", "1z", "4294967296", "2147483648", "IN", "CH", "ANY", "NONE", "\t", "\r", "\\.", "*",
         "1-2", "1-3/0", "${0,0,z}", "${-1}", "$" + "{" * 50, "''", "`", "\\032", "\n", " \n ", "\n\n(",
         # characters that are "digits" to str.isdigit() but not decimal (superscripts, circled, Ethiopic), alone and inside \\DDD escapes
         "\\\u00b2", "a\\\u00b2b", "\\1\u00b23", "\\12\u2460", "\\\u1369", "\\\u0663\u0663\u0663", "\\0\u0664\u0661", "x\\\u2460.example."]


def shards(tier, seed):
    mult = 1 if tier == "quick" else 24
    types = GR.ALL_TYPES
    return [{"types": types[i::16], "n": 2600 * mult} for i in range(16)]


class TokSpy:
    """logical step budget on the tokenizer: characters consumed per top-level parse"""

    def __init__(self):
        self.steps = 0
        self.budget = None

    def install(self):
        spy = self
        T = dns.tokenizer.Tokenizer
        self.orig = T._get_char

        def _get_char(self):
            spy.steps += 1
            if spy.budget is not None and spy.steps > spy.budget:
                raise core.StepBudgetExceeded(f"tokenizer steps {spy.steps} > {spy.budget}")
            return spy.orig(self)

        T._get_char = _get_char
        return self

    def uninstall(self):
        dns.tokenizer.Tokenizer._get_char = self.orig

    def begin(self, n):
        self.steps = 0
        self.budget = 400 * (n + 10) + 200000

    def end(self):
        self.budget = None


def mutate_text(rng, t):
    k = rng.choice(("atom", "atom", "atom", "char", "del", "dup", "swapline", "trunc", "insline", "case", "paren", "quote"))
    if not t:
        return rng.choice(ATOMS), "atom"
    if k == "atom":
        # replace or insert at a token boundary
        toks = t.split(" ")
        i = rng.randrange(len(toks))
        if rng.random() < 0.5:
            toks[i] = rng.choice(ATOMS)
        else:
            toks.insert(i, rng.choice(ATOMS))
        return " ".join(toks), k
    if k == "char":
        i = rng.randrange(len(t))
        return t[:i] + rng.choice(['"', "\\", "(", ")", ";", "\n", " ", "\t", "$", "@", ".", "0", "\x7f", "\x00", "é", chr(rng.randrange(32, 127))]) + t[i + 1:], k
    if k == "del":
        i = rng.randrange(len(t))
        return t[:i] + t[i + rng.choice((1, 1, 2, 5)):], k
    if k == "dup":
        i = rng.randrange(len(t))
        j = min(len(t), i + rng.choice((1, 3, 10)))
        return t[:i] + t[i:j] + t[i:], k
    if k == "swapline":
        ls = t.split("\n")
        if len(ls) > 2:
            i, j = rng.randrange(len(ls)), rng.randrange(len(ls))
            ls[i], ls[j] = ls[j], ls[i]
        return "\n".join(ls), k
    if k == "trunc":
        return t[: rng.randrange(len(t))], k
    if k == "insline":
        ls = t.split("\n")
        ls.insert(rng.randrange(len(ls) + 1), rng.choice(["$TTL", "$TTL 1w", "$ORIGIN", "$ORIGIN x", "$ORIGIN x.", "$GENERATE 1-3 $ A 10.0.0.$", "$GENERATE 1-3/0 $ A 1.2.3.4",
                                                          "$GENERATE 1-2 a${0,3,z} A 1.1.1.1", "$GENERATE 3-1 x A 1.1.1.1",
                                                          # modifier fields of hostile size (a zero-fill width is an allocation request; a number may have thousands of digits)
                                                          "$GENERATE 1-2 a${0,99999999999,d} A 10.0.0.$", "$GENERATE 1-2 a TXT x${0,4000000000,x}", "$GENERATE 1-2 a${" + "1" * 5000 + ",1,d} A 10.0.0.$",
                                                          "$GENERATE 1-2 a${0," + "9" * 4500 + "} A 10.0.0.$", "$GENERATE 1-" + "9" * 4400 + " a A 10.0.0.1", "$GENERATE 1-2 a${-5,3,d} A 10.0.0.$", "$GENERATE", "$GENERATE 1-2", "$INCLUDE /nonexistent", "$UNICODE 2008",
                                                          "$BOGUS", " ", "(", ")", "@", "@ IN", "@ 300", "@ IN SOA", " IN A 1.2.3.4", "\tA 1.2.3.4", '""', '"" IN A 1.2.3.4', "a 1 IN A", "a IN 1 A 1.2.3.4",
                                                          "a CH A 1.2.3.4", "outside.zone. 1 IN A 1.2.3.4", "a 99999999999 IN A 1.2.3.4", "a 1 IN TYPE65536 \\# 0", "a 1 IN CNAME b", "a 1 IN A 1.2.3.4"]))
        return "\n".join(ls), k
    if k == "case":
        return t.swapcase(), k
    if k == "paren":
        i = rng.randrange(len(t))
        return t[:i] + rng.choice(("(", ")", "(\n", "\n)")) + t[i:], k
    i = rng.randrange(len(t))
    return t[:i] + '"' + t[i:], k


class Monitor:
    def __init__(self, ctx, pspy, tspy):
        self.ctx, self.pspy, self.tspy = ctx, pspy, tspy

    def run(self, ep, fn, size, case, allow_semantic=False, narrow=None, wire=True):
        """runs fn() under the monitors; returns the value or None"""
        ctx = self.ctx
        ctx.count("evaluations")
        ctx.count("ep." + ep)
        if wire:
            self.pspy.begin(budget=size * size // 4 + 400 * size + 4000)
        else:
            self.tspy.begin(size)
        try:
            with core.case_guard(20):
                v = fn()
            ctx.seen((ep, "ok"))
            return v
        except dns.exception.DNSException as e:
            fam = "FormError" if isinstance(e, dns.exception.FormError) else "SyntaxError" if isinstance(e, dns.exception.SyntaxError) else "other"
            ctx.seen((ep, "lib", type(e).__name__))
            ctx.table("exceptions", f"{ep}:{type(e).__name__}")
            if narrow is not None and not isinstance(e, narrow):
                ctx.violation(f"wrong-error-family:{ep}:{type(e).__name__}", f"{e!r}", case)
            return None
        except core.StepBudgetExceeded as e:
            ctx.violation(f"does-not-terminate-in-budget:{ep}", str(e), case)
        except core.CaseTimeout:
            ctx.violation(f"hang:{ep}", "20 s wall backstop", case)
        except RecursionError as e:
            ctx.violation(f"foreign-exception:{ep}:RecursionError", "", case)
        except MemoryError:
            ctx.violation(f"foreign-exception:{ep}:MemoryError", "", case)
        except Exception as e:
            cls = classify_exception(e, allow_semantic)
            if cls == "semantic":
                ctx.seen((ep, "semantic", type(e).__name__))
                return None
            ctx.violation(f"foreign-exception:{ep}:" + core.exc_sig(e), f"{e!r}", case)
        finally:
            self.pspy.end()
            self.tspy.end()
        return None

    def rerender(self, ep, obj, fns, case):
        """every returned value must render again without a foreign exception"""
        ctx = self.ctx
        for name, fn in fns:
            ctx.count("mon.rerender")
            try:
                with core.case_guard(20):
                    fn()
            except dns.exception.DNSException:
                pass
            except core.CaseTimeout:
                ctx.violation(f"returned-value-rerender-hang:{ep}:{name}", "", case)
            except Exception as e:
                ctx.violation(f"returned-value-cannot-be-rendered:{ep}:{name}:" + core.exc_sig(e), f"{e!r}", case)


# ------------------------------------------------------------------------------------------ wire entry points


def structured_message_mutation(rng, w):
    """field-level changes to a well-formed message: another opcode (UPDATE in particular), section counts moved around or
    zeroed while the records stay, the class or type of one record replaced (ANY, NONE, OPT, TSIG, ...)"""
    from vlib.ref import wirewalk as WW

    b = bytearray(w)
    if len(b) < 12:
        return bytes(b)
    for _ in range(rng.choice((1, 1, 2, 3))):
        k = rng.choice(("opcode", "opcode-update", "counts", "class", "type", "tsig-algorithm"))
        if k == "tsig-algorithm":
            # the algorithm name inside a TSIG record replaced by one the library does not implement (or cut short)
            i = bytes(b).rfind(b"hmac-")
            if i > 0:
                b[i + rng.randrange(5, 9)] = rng.choice(b"xyz09-")
        elif k == "opcode":
            b[2] = (b[2] & 0x87) | (rng.randrange(16) << 3)
        elif k == "opcode-update":
            b[2] = (b[2] & 0x87) | (5 << 3)
        elif k == "counts":
            c = list(struct.unpack("!HHHH", b[4:12]))
            how = rng.choice(("zero-first", "zero-any", "shift", "swap", "plus"))
            if how == "zero-first":
                c[1] += c[0]
                c[0] = 0
            elif how == "zero-any":
                c[rng.randrange(4)] = 0
            elif how == "shift":
                i = rng.randrange(3)
                c[i + 1] += c[i]
                c[i] = 0
            elif how == "swap":
                i, j = rng.randrange(4), rng.randrange(4)
                c[i], c[j] = c[j], c[i]
            else:
                c[rng.randrange(4)] += 1
            b[4:12] = struct.pack("!HHHH", *[min(x, 65535) for x in c])
        else:
            try:
                walk = WW.walk(bytes(b))
            except Exception:
                continue
            recs = [r for sec in walk["records"] for r in sec]
            if not recs:
                continue
            labels, t, c, ttl, off, rdlen = rng.choice(recs)
            if k == "class":
                b[off - 8:off - 6] = struct.pack("!H", rng.choice((255, 254, 1, 3, 0, 65535)))
            else:
                b[off - 10:off - 8] = struct.pack("!H", rng.choice((41, 250, 249, 6, 255, 252, 251, 0, 46)))
    return bytes(b)


def fuzz_message_wire(mon, rng, w, tag, keyring=None):
    n = len(w)
    opts = dict(question_only=rng.random() < 0.15, one_rr_per_rrset=rng.random() < 0.3, ignore_trailing=rng.random() < 0.3,
                raise_on_truncation=rng.random() < 0.3, continue_on_error=rng.random() < 0.4, xfr=rng.random() < 0.2)
    origin = dns.name.from_text("example.") if rng.random() < 0.2 else None
    case = {"kind": "msgwire", "wire": w, "opts": opts, "origin": origin is not None, "keyring": None if keyring is None else "key" if not isinstance(keyring, dict) else "dict-of-secrets" if isinstance(next(iter(keyring.values())), bytes) else "dict-of-keys"}
    m = mon.run("message.from_wire", lambda: dns.message.from_wire(w, keyring=keyring, origin=origin, **opts), n, case)
    ctx = mon.ctx
    if opts["continue_on_error"]:
        ctx.count("mon.continue_on_error")
        # only ShortHeader (and Truncated when asked) may escape in this mode
        try:
            m2 = dns.message.from_wire(w, keyring=keyring, origin=origin, **opts)
            for err in m2.errors:
                if not (12 <= err.offset <= n):
                    ctx.violation("continue_on_error-offset-out-of-range", f"offset {err.offset} len {n}", case)
        except dns.message.ShortHeader:
            if n >= 12:
                ctx.violation("continue_on_error-shortheader-for-long-message", "", case)
        except dns.message.Truncated:
            if not opts["raise_on_truncation"]:
                ctx.violation("continue_on_error-raised-truncated-unasked", "", case)
        except dns.exception.DNSException as e:
            ctx.violation(f"continue_on_error-still-raises:{type(e).__name__}", f"{e!r}", case)
        except Exception:
            pass  # reported by mon.run above
    if m is not None:
        mon.rerender("message.from_wire", m, [("to_text", m.to_text), ("to_wire", lambda: m.to_wire(max_size=65535)), ("repr", lambda: repr(m)), ("eq", lambda: m == m),
                                              ("sections", lambda: [(rr.to_text(), hash(rr.name)) for s in m.sections for rr in s])], case)


def check_one_damaged_record(ctx, rng):
    """continue-on-error with exactly ONE record made unreadable (its rdata fails to decode, its header and length are intact):
    one failure is recorded, at an offset inside that record, and every other record is delivered"""
    from vlib.ref import wirewalk as WW

    ctx.count("evaluations")
    ctx.count("mon.continue_on_error_one_damaged_record")
    m = dns.message.make_response(dns.message.make_query("q.example.", "A"))
    n = rng.randint(2, 9)
    for i in range(n):
        sec = rng.choice((m.answer, m.authority, m.additional))
        owner = dns.name.from_text(f"r{i}.{rng.choice(('example.', 'q.example.', 'other.test.'))}")
        t = rng.choice(("A", "A", "MX", "TXT", "NS"))
        text = {"A": f"10.0.{i}.1", "MX": f"10 mx{i}.example.", "TXT": f'"t{i}" "more"', "NS": f"ns{i}.q.example."}[t]
        m.find_rrset(sec, owner, 1, dns.rdatatype.from_text(t), create=True).add(dns.rdata.from_text("IN", t, text), 60 + i)
    w = bytearray(m.to_wire())
    recs = [r for sec in WW.walk(bytes(w))["records"] for r in sec]
    damageable = [j for j, r in enumerate(recs) if r[1] in (1, 15, 2)]
    if not damageable:
        return
    j = rng.choice(damageable)
    labels, t, c, ttl, off, rdlen = recs[j]
    if t == 1:
        how = "A-retyped-AAAA"
        w[off - 10:off - 8] = struct.pack("!H", 28)  # four octets are not an IPv6 address
    else:
        how = "bad-label-type-in-target"
        w[off + (2 if t == 15 else 0)] = 0x80  # label type 10 does not exist; nothing points into this rdata (it is last of its spelling)
    start = off - 10 - 1  # somewhere in the owner name at the latest
    case = {"kind": "one-damaged", "wire": bytes(w), "damaged_index": j, "how": how}
    try:
        got = dns.message.from_wire(bytes(w), continue_on_error=True, one_rr_per_rrset=True)
    except Exception as e:
        ctx.violation(f"continue_on_error-still-raises:{type(e).__name__}", f"{how}: {e!r}", case)
        return
    ctx.seen(("one-damaged", how, j == len(recs) - 1, len(recs)))
    delivered = [(rr.name.to_text().lower(), int(rr.rdtype)) for sec in (got.answer, got.authority, got.additional) for rr in sec]
    want = [(".".join(l.decode().lower() for l in r[0]) or ".", r[1]) for k, r in enumerate(recs) if k != j]
    want = [(nm if nm.endswith(".") else nm + ".", t) for nm, t in want]
    if sorted(delivered) != sorted(want):
        ctx.violation("continue_on_error-intact-records-lost-after-a-damaged-one", f"{how} at record {j} of {len(recs)}: delivered {len(delivered)} of {len(want)} intact records; errors {[(type(e.exception).__name__, e.offset) for e in got.errors]}", case)
        return
    if len(got.errors) != 1:
        ctx.violation("continue_on_error-error-count-differs-from-damage", f"{how}: one damaged record, errors {[(type(e.exception).__name__, e.offset) for e in got.errors]}", case)
        return
    eo = got.errors[0].offset
    if not (off - 10 <= eo <= off + rdlen):
        ctx.violation("continue_on_error-offset-outside-the-damaged-record", f"{how}: record header at {off - 10}, rdata {off}..{off + rdlen}, recorded offset {eo}", case)


def fuzz_rdata_wire(mon, rng, rdclass, rdtype, tname, data):
    case = {"kind": "rdwire", "rdclass": rdclass, "rdtype": rdtype, "type": tname, "data": data}
    pre = b"\x03abc\x00\xc0\x00"
    buf = pre + data + b"\x01z\x00"
    origin = dns.name.from_text("abc.") if rng.random() < 0.3 else None
    rd = mon.run("rdata.from_wire", lambda: dns.rdata.from_wire(rdclass, rdtype, buf, len(pre), len(data), origin), len(buf), case, narrow=dns.exception.FormError)
    if rd is not None:
        mon.rerender("rdata.from_wire", rd, [("to_text", rd.to_text), ("to_wire", lambda: rd.to_wire(origin=origin)), ("repr", lambda: repr(rd)), ("hash", lambda: hash(rd)), ("eq", lambda: rd == rd),
                                             ("to_generic", lambda: rd.to_generic(origin).to_text())], case)


def fuzz_option_wire(mon, rng, otype, data):
    case = {"kind": "optwire", "otype": otype, "data": data}
    buf = b"\x00\x00" + data + b"\xff"
    o = mon.run("edns.option_from_wire", lambda: dns.edns.option_from_wire(otype, buf, 2, len(data)), len(buf), case)
    if o is not None:
        mon.rerender("edns.option_from_wire", o, [("to_text", o.to_text), ("to_wire", o.to_wire), ("repr", lambda: repr(o)), ("eq", lambda: o == o)], case)


# ------------------------------------------------------------------------------------------ text entry points


def fuzz_name_text(mon, rng, t):
    case = {"kind": "nametext", "text": t}
    origin = rng.choice((dns.name.root, None, dns.name.from_text("example.")))
    codec = rng.choice((None, dns.name.IDNA_2003, dns.name.IDNA_2008, dns.name.IDNA_2008_Practical, dns.name.IDNA_2008_UTS_46))
    fn = rng.choice((lambda: dns.name.from_text(t, origin, codec), lambda: dns.name.from_text(t.encode("utf-8", "replace"), origin), lambda: dns.name.from_unicode(t, origin, codec)))
    n = mon.run("name.from_text", fn, len(t), case, wire=False)
    if n is not None:
        mon.rerender("name.from_text", n, [("to_text", n.to_text), ("to_unicode", n.to_unicode), ("to_wire", lambda: n.to_wire(origin=dns.name.root)), ("hash", lambda: hash(n)), ("repr", lambda: repr(n))], case)


def fuzz_rdata_text(mon, rng, rdclass, rdtype, tname, t):
    case = {"kind": "rdtext", "rdclass": rdclass, "rdtype": rdtype, "type": tname, "text": t}
    origin = dns.name.from_text("example.") if rng.random() < 0.5 else None
    rel = rng.random() < 0.5
    rd = mon.run("rdata.from_text", lambda: dns.rdata.from_text(rdclass, rdtype, t, origin, rel), len(t), case, narrow=dns.exception.SyntaxError, wire=False)
    if rd is not None:
        mon.rerender("rdata.from_text", rd, [("to_text", rd.to_text), ("to_wire", lambda: rd.to_wire(origin=origin or dns.name.root)), ("repr", lambda: repr(rd)), ("hash", lambda: hash(rd))], case)


def fuzz_ttl_text(mon, rng, t):
    case = {"kind": "ttltext", "text": t}
    v = mon.run("ttl.from_text", lambda: dns.ttl.from_text(t), len(t), case, wire=False)
    if v is not None:
        # what was accepted is a TTL: it fits the 32-bit field it is rendered into
        mon.ctx.count("mon.accepted_ttl_in_range")
        if not isinstance(v, int) or not (0 <= v <= 0xFFFFFFFF):
            mon.ctx.violation("returned-value-cannot-be-rendered:ttl.from_text:out-of-range", f"{t!r} -> {v!r}", case)


def fuzz_rrset_text(mon, rng, t, rdtype_text):
    case = {"kind": "rrsettext", "text": t, "rdtype": rdtype_text}
    ttl = rng.choice(("300", "1w", t[:8], "-1"))
    fn = rng.choice((lambda: dns.rrset.from_text("owner.example.", ttl, "IN", rdtype_text, t), lambda: dns.rdataset.from_text("IN", rdtype_text, ttl, t),
                     lambda: dns.rrset.from_text(t[:20], 300, "IN", rdtype_text, t)))
    r = mon.run("rrset.from_text", fn, len(t) + 40, case, wire=False)
    if r is not None:
        mon.rerender("rrset.from_text", r, [("to_text", r.to_text), ("repr", lambda: repr(r))], case)


ZONE_FACTORIES = [dns.zone.Zone, dns.versioned.Zone, dns.btreezone.Zone]


def fuzz_zone_text(mon, rng, t, origin_text):
    fac = rng.choice(ZONE_FACTORIES)
    opts = dict(relativize=rng.random() < 0.5, check_origin=rng.random() < 0.5, allow_directives=rng.choice((True, True, False, ["$TTL"], ["ORIGIN", "generate"])))
    origin = rng.choice((origin_text, origin_text, None, "."))
    case = {"kind": "zonetext", "text": t, "origin": origin, "factory": fac.__module__, "opts": core.jsonable(opts)}
    z = mon.run("zone.from_text", lambda: dns.zone.from_text(t, origin=origin, zone_factory=fac, **opts), len(t), case, allow_semantic=True, wire=False)
    ctx = mon.ctx
    # syntax errors must carry file:line
    try:
        dns.zone.from_text(t, origin=origin, zone_factory=fac, **opts)
    except dns.exception.SyntaxError as e:
        ctx.count("mon.zone_syntax_error_has_location")
        msg = str(e)
        head = msg.split(":")
        if len(head) < 3 or not head[1].strip().isdigit():
            ctx.violation("zone-syntax-error-without-file-line", msg[:200], case)
    except Exception:
        pass
    if rng.random() < 0.08:
        # the same zone file as OCTETS that are not valid UTF-8 (a stray 0xFF / a cut multi-byte sequence somewhere): handed
        # over as bytes, or read from a file
        ctx.count("mon.zone_octets_not_utf8")
        raw = bytearray(t.encode("utf-8", "replace"))
        pos = rng.randrange(len(raw) + 1)
        raw[pos:pos] = rng.choice((b"\xff", b"\xc3", b"\xe2\x82", b"\x80", b"\xf0\x9f"))
        raw = bytes(raw)
        try:
            raw.decode("utf-8")
        except UnicodeDecodeError:
            case_b = dict(case, kind="zonebytes", octets=raw)
            case_b.pop("text", None)
            if rng.random() < 0.5:
                mon.run("zone.from_text", lambda: dns.zone.from_text(raw, origin=origin, zone_factory=fac, **opts), len(raw), case_b, allow_semantic=True, wire=False)
            else:
                import tempfile

                fd, path = tempfile.mkstemp(prefix="c04-", suffix=".zone", dir=os.path.join(core.ROOT, ".work") if os.path.isdir(os.path.join(core.ROOT, ".work")) else None)
                try:
                    with os.fdopen(fd, "wb") as f:
                        f.write(raw)
                    mon.run("zone.from_file", lambda: dns.zone.from_file(path, origin=origin, zone_factory=fac, **opts), len(raw), case_b, allow_semantic=True, wire=False)
                finally:
                    os.unlink(path)
    if z is not None:
        mon.rerender("zone.from_text", z, [("to_text", lambda: z.to_text()), ("iterate", lambda: [(n.to_text(), [r.to_text() for r in node.rdatasets]) for n, node in z.nodes.items()]),
                                           ("to_text_abs", lambda: z.to_text(relativize=False))], case)


def fuzz_read_rrsets(mon, rng, t):
    opts = {}
    if rng.random() < 0.4:
        opts["name"] = rng.choice(("forced.example.", "rel"))
    if rng.random() < 0.4:
        opts["ttl"] = rng.choice((300, 0))
    if rng.random() < 0.4:
        opts["rdclass"] = rng.choice(("IN", None))
    if rng.random() < 0.3:
        opts["rdtype"] = rng.choice(("A", "TXT", "MX"))
    if rng.random() < 0.4:
        opts["default_ttl"] = rng.choice((60, "1h"))
    if rng.random() < 0.4:
        opts["origin"] = rng.choice(("example.", None))
    opts["relativize"] = rng.random() < 0.5
    case = {"kind": "rrsetstext", "text": t, "opts": core.jsonable(opts)}
    r = mon.run("zonefile.read_rrsets", lambda: dns.zonefile.read_rrsets(t, **opts), len(t), case, allow_semantic=True, wire=False)
    if r is not None:
        mon.rerender("zonefile.read_rrsets", r, [("to_text", lambda: [x.to_text() for x in r])], case)


def fuzz_message_text(mon, rng, t):
    case = {"kind": "msgtext", "text": t}
    opts = dict(one_rr_per_rrset=rng.random() < 0.3, relativize=rng.random() < 0.5)
    if rng.random() < 0.3:
        opts["origin"] = dns.name.from_text("example.")
    m = mon.run("message.from_text", lambda: dns.message.from_text(t, **opts), len(t), case, wire=False)
    if m is not None:
        mon.rerender("message.from_text", m, [("to_text", m.to_text), ("to_wire", lambda: m.to_wire(max_size=65535, origin=opts.get("origin") or dns.name.root)), ("repr", lambda: repr(m))], case)


def fuzz_tokenizer(mon, rng, t):
    case = {"kind": "toktext", "text": t}

    def drain():
        tok = dns.tokenizer.Tokenizer(t)
        n = 0
        while True:
            tk = tok.get(want_leading=rng.random() < 0.3, want_comment=rng.random() < 0.3)
            n += 1
            if tk.is_eof() or n > len(t) + 10:
                return n
            if rng.random() < 0.2:
                tk.unescape()
            elif rng.random() < 0.2:
                tk.unescape_to_bytes()

    mon.run("tokenizer", drain, len(t), case, wire=False)


def run(spec, ctx):
    rng = ctx.rng
    pspy = ParserSpy().install()
    tspy = TokSpy().install()
    mon = Monitor(ctx, pspy, tspy)
    try:
        # corpora
        msgs, mtexts = [], []
        for _ in range(12):
            try:
                m, info = GM.gen_message(rng, size=rng.choice(("small", "small", "medium")))
                msgs.append(m.to_wire(max_size=65535))
                mtexts.append(m.to_text())
            except Exception:
                pass
        key = dns.tsig.Key("k.example.", b"0123456789abcdef")
        try:
            m, _ = GM.gen_message(rng, kind="response", size="small")
            m.use_tsig(key)
            msgs.append(m.to_wire(max_size=65535))
        except Exception:
            pass
        zones = []
        for _ in range(4):
            mz = GZ.gen_zone(rng, plain=rng.random() < 0.7, exotic_names=rng.random() < 0.3)
            zones.append((GZ.mz_to_text(mz), RN.to_text(mz.origin)))
        rd_wires, rd_texts = {}, {}
        for t in spec["types"]:
            rd_wires[t], rd_texts[t] = [], []
            for _ in range(10):
                try:
                    v = GR.gen(rng, t, None, False)
                    rd = GR.build(v)
                    rd_wires[t].append((v.rdclass, v.rdtype, rd.to_wire()))
                    rd_texts[t].append((v.rdclass, v.rdtype, rd.to_text()))
                except Exception:
                    pass
        f = GR.F(rng)
        options = [GR.gen_option(f) for _ in range(20)]
        ctx.sample({"corpus": {"messages": len(msgs), "zones": len(zones), "types": spec["types"], "options": len(options)}})

        for i in range(spec["n"]):
            if ctx.expired(1.0):
                break
            # --- messages (wire)
            w = rng.choice(msgs)
            r = rng.random()
            if r < 0.08:
                fw = w  # the valid artefact itself (signed ones without a keyring must be recorded, not raised, in continue-on-error mode)
            elif r < 0.3:
                fw = structured_message_mutation(rng, w)
                ctx.count("mon.structured_message_mutations")
            elif r < 0.8:
                fw, mk = mutate_bytes(rng, w)
                if rng.random() < 0.3:
                    fw, _ = mutate_bytes(rng, fw)
            elif r < 0.9:
                fw = bytes(rng.randrange(256) for _ in range(rng.choice((0, 5, 11, 12, 13, 40, 200))))
            else:
                fw = w[:12] + bytes(rng.randrange(256) for _ in range(rng.randint(0, 60)))
            # the keyring: none, the key object, or the documented dict forms (name -> key object / name -> bare secret)
            kr = rng.choice((None, None, None, None, key, key, {key.name: key}, {key.name: key.secret}))
            if isinstance(kr, dict) and isinstance(kr[key.name], bytes):
                ctx.count("mon.keyring_of_bare_secrets")
            fuzz_message_wire(mon, rng, fw, "mut", keyring=kr)
            if i % 4 == 0:
                check_one_damaged_record(ctx, rng)
            # --- names (wire)
            buf, pos, well, kind = hostile_buffer(rng)
            n = mon.run("name.from_wire", lambda: dns.name.from_wire(buf, pos), len(buf), {"kind": "namewire", "buf": buf, "pos": pos})
            # --- rdata (wire + text), every type of this shard
            t = spec["types"][i % len(spec["types"])]
            if rd_wires.get(t):
                rdclass, rdtype, w0 = rng.choice(rd_wires[t])
                data, _ = mutate_bytes(rng, w0) if rng.random() < 0.85 else (bytes(rng.randrange(256) for _ in range(rng.randint(0, 30))), "")
                fuzz_rdata_wire(mon, rng, rdclass, rdtype, t, data)
                rdclass, rdtype, t0 = rng.choice(rd_texts[t])
                tt, _ = mutate_text(rng, t0)
                if rng.random() < 0.3:
                    tt, _ = mutate_text(rng, tt)
                fuzz_rdata_text(mon, rng, rdclass, rdtype, t, tt)
                fuzz_rrset_text(mon, rng, tt, dns.rdatatype.to_text(rdtype))
            # --- EDNS options
            kindo, args, ot, ow = rng.choice(options)
            od, _ = mutate_bytes(rng, ow) if rng.random() < 0.8 else (bytes(rng.randrange(256) for _ in range(rng.randint(0, 12))), "")
            fuzz_option_wire(mon, rng, rng.choice((ot, ot, 3, 8, 10, 15, 18, 22, 23, 24, 25, 12, 65001)), od)
            # --- names / ttl (text)
            nt = RN.to_text(GN.name(rng), rng.choice(("minimal", "ddd", "bschar")))
            nt, _ = mutate_text(rng, nt) if rng.random() < 0.8 else (nt, "")
            fuzz_name_text(mon, rng, nt)
            fuzz_ttl_text(mon, rng, rng.choice(("300", "1w2d", "1W", "", "w", "1w1", "9" * rng.choice((3, 11, 5000)), "-1", "1.5", "٣", "0", "4294967295", "4294967296", "1h1h", "7102w", "49711d", "1w4294967295s", "4294967296s", rng.choice(ATOMS))))
            # --- zones / rrsets / message text / tokenizer
            if i % 3 == 0:
                zt, zo = rng.choice(zones)
                for _ in range(rng.choice((1, 1, 2, 4))):
                    zt, _ = mutate_text(rng, zt)
                fuzz_zone_text(mon, rng, zt, zo)
                fuzz_read_rrsets(mon, rng, zt if rng.random() < 0.5 else "\n".join(zt.split("\n")[1:6]))
            if i % 3 == 1 and mtexts:
                mt, _ = mutate_text(rng, rng.choice(mtexts))
                fuzz_message_text(mon, rng, mt)
            if i % 3 == 2:
                fuzz_tokenizer(mon, rng, mutate_text(rng, rng.choice(zones)[0][:400])[0])
    finally:
        pspy.uninstall()
        tspy.uninstall()


def replay(case, ctx):
    import random

    rng = random.Random(0)
    pspy = ParserSpy().install()
    tspy = TokSpy().install()
    mon = Monitor(ctx, pspy, tspy)
    try:
        k = case["kind"]
        if k == "msgwire":
            opts = case["opts"]
            origin = dns.name.from_text("example.") if case.get("origin") else None
            key = dns.tsig.Key("k.example.", b"0123456789abcdef") if case.get("keyring") else None
            if case.get("keyring") == "dict-of-secrets":
                key = {key.name: key.secret}
            elif case.get("keyring") == "dict-of-keys":
                key = {key.name: key}
            w = case["wire"]
            m = mon.run("message.from_wire", lambda: dns.message.from_wire(w, keyring=key, origin=origin, **opts), len(w), case)
            if m is not None:
                mon.rerender("message.from_wire", m, [("to_text", m.to_text), ("to_wire", lambda: m.to_wire(max_size=65535))], case)
        elif k == "rdwire":
            fuzz_rdata_wire(mon, rng, case["rdclass"], case["rdtype"], case["type"], case["data"])
        elif k == "optwire":
            fuzz_option_wire(mon, rng, case["otype"], case["data"])
        elif k == "namewire":
            mon.run("name.from_wire", lambda: dns.name.from_wire(case["buf"], case["pos"]), len(case["buf"]), case)
        elif k == "nametext":
            for _ in range(12):
                fuzz_name_text(mon, rng, case["text"])
        elif k == "rdtext":
            for _ in range(4):
                fuzz_rdata_text(mon, rng, case["rdclass"], case["rdtype"], case["type"], case["text"])
        elif k == "ttltext":
            fuzz_ttl_text(mon, rng, case["text"])
        elif k == "zonetext":
            for _ in range(12):
                fuzz_zone_text(mon, rng, case["text"], case.get("origin") or "example.")
        elif k == "zonebytes":
            raw = case["octets"]
            mon.run("zone.from_text", lambda: dns.zone.from_text(raw, origin=case.get("origin"), relativize=case["opts"].get("relativize", True), check_origin=case["opts"].get("check_origin", True)),
                    len(raw), case, allow_semantic=True, wire=False)
        elif k == "rrsetstext":
            for _ in range(12):
                fuzz_read_rrsets(mon, rng, case["text"])
        elif k == "msgtext":
            for _ in range(4):
                fuzz_message_text(mon, rng, case["text"])
        elif k == "rrsettext":
            for _ in range(6):
                fuzz_rrset_text(mon, rng, case["text"], case["rdtype"])
        elif k == "toktext":
            fuzz_tokenizer(mon, rng, case["text"])
    finally:
        pspy.uninstall()
        tspy.uninstall()
