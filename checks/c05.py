"""C05 — every record type's master-file text parses back to an equal record."""

import pickle

import dns.exception
import dns.name
import dns.rdata
import dns.tokenizer

from vlib import core
from vlib.gen import names as GN
from vlib.gen import rdata as GR
from vlib.mon.hooks import classify_exception
from vlib.ref import names as RN
from checks.c02 import normalized, mutate, describe, case_variant_of_origin

PROP = "C05"
LEVEL = "exploration"
RULE = (
    "values from the rdata type table (every implemented type + unknown types; boundary-biased fields, all 256 octet "
    "values in character-strings / opaque fields / names) are printed under every lossless presentation (origin x "
    "relativize, base64/hex chunk sizes, RFC 3597 generic form, mid-line tokenizer with comment, parenthesised multi-line) "
    "and parsed back; failures are diagnosed causally by repairing one feature of the value at a time (high octets, empty "
    "fields, control octets, specials) and re-running. Distinct by (type, boundary tags, presentation)."
)
RULE += " " + (
    "Also: IPv6 look-alikes of the embedded-IPv4 forms; key / MAC / digest fields blown up beyond their length prefix (refused or encodable)."
)
ASSUMPTIONS = [
    "'well-formed' = produced by the type table (DESIGN.md Appendix A)",
    "lossless styles: any origin/relativize, chunk sizes with the default separator, txt_is_utf8 on or off, truncate_crypto off",
]
REQUIRED = ["mon.relativize_to_other_than_origin", "mon.text_roundtrip", "mon.generic_roundtrip", "mon.wire_survivor_to_text", "mon.text_survivor_to_wire"]
BUDGET = {"quick": 45.0, "thorough": 480.0}


def shards(tier, seed):
    types = GR.ALL_TYPES
    mult = 1 if tier == "quick" else 100
    return [{"types": types[i::16] + types[(i + 7) % 16::16], "n_rt": 110 * mult, "n_host": 300 * mult, "n_textmut": 150 * mult} for i in range(16)]


def mkname(l):
    return dns.name.Name(l)


# ------------------------------------------------------------------------------------------ causal diagnosis


def _map_bytes(val, fn):
    def conv(a):
        if isinstance(a, bytes):
            return fn(a)
        if isinstance(a, tuple) and a and all(isinstance(x, bytes) for x in a):
            return tuple(fn(x) for x in a)
        if isinstance(a, tuple) and len(a) == 2 and a[0] == "SVCPARAMS":
            d = {}
            for k, v in a[1].items():
                if v is None:
                    d[k] = None
                elif isinstance(v[1], bytes):
                    d[k] = (v[0], fn(v[1]) or (b"x" if v[0] == "GEN" else fn(v[1])))
                elif isinstance(v[1], tuple) and v[1] and all(isinstance(x, bytes) for x in v[1]) and v[0] in ("ALPN", "DOCPATH"):
                    d[k] = (v[0], tuple(fn(x) or b"x" for x in v[1]))
                else:
                    d[k] = v
            return ("SVCPARAMS", d)
        return a

    return GR.Val(val.rdclass, val.rdtype, val.tname, [conv(a) for a in val.args], val.parts, val.tags)


def _map_names(val, fn):
    def conv(a):
        if isinstance(a, GR.NameRef):
            return GR.NameRef(tuple(fn(l) if l else l for l in a.labels), a.comp, a.down)
        if isinstance(a, tuple) and a and isinstance(a[0], GR.NameRef):
            return tuple(conv(x) for x in a)
        return a

    return GR.Val(val.rdclass, val.rdtype, val.tname, [conv(a) for a in val.args], val.parts, val.tags)


REPAIRS = [
    ("high-octet", lambda v: _map_bytes(v, lambda b: bytes(0x61 if c >= 0x80 else c for c in b))),
    ("empty-field", lambda v: _map_bytes(v, lambda b: b or b"A")),
    ("control-octet", lambda v: _map_bytes(v, lambda b: bytes(0x62 if (c < 0x20 or c == 0x7F) else c for c in b))),
    ("special-char", lambda v: _map_bytes(v, lambda b: bytes(0x63 if c in b'"\\;() @$\',' else c for c in b))),
    ("name-octets", lambda v: _map_names(v, lambda l: bytes(0x64 if not (0x30 <= c <= 0x39 or 0x61 <= c <= 0x7A or c == 0x2D) else c for c in l))),
]


def _only_arg(val, repaired, i):
    args = list(val.args)
    args[i] = repaired.args[i]
    return GR.Val(val.rdclass, val.rdtype, val.tname, args, val.parts, val.tags)


def diagnose(val, probe):
    """probe(val) -> True when the failure is still present.  Returns 'feature@argindex' for the
    single-feature, single-field repair that makes the failure disappear (then whole-value single
    features, then pairs), else 'unexplained'."""
    for name, rep in REPAIRS:
        try:
            v2 = rep(val)
        except Exception:
            continue
        if v2.args == val.args:
            continue
        for i in range(len(val.args)):
            if v2.args[i] != val.args[i]:
                try:
                    if not probe(_only_arg(val, v2, i)):
                        return f"{name}@{i}"
                except Exception:
                    pass
        try:
            if not probe(v2):
                return name
        except Exception:
            pass
    for i in range(len(REPAIRS)):
        for j in range(i + 1, len(REPAIRS)):
            try:
                v2 = REPAIRS[j][1](REPAIRS[i][1](val))
                if not probe(v2):
                    return REPAIRS[i][0] + "+" + REPAIRS[j][0]
            except Exception:
                continue
    return "unexplained"


# ------------------------------------------------------------------------------------------ presentations


def presentations(rng, has_origin, has_relative):
    """yields (label, to_text kwargs, style kwargs, parse origin?, parse relativize, expect mode)"""
    out = []
    if not has_relative:
        out.append(("plain/noorigin", dict(), None, False, True, "self"))
    if has_origin:
        out.append(("plain/origin-rel", dict(), None, True, True, "norm"))
        out.append(("plain/origin-abs", dict(), None, True, False, "full"))
        out.append(("reltext/rel", dict(relativize=True, use_origin=True), None, True, True, "norm"))
        out.append(("reltext/abs", dict(relativize=True, use_origin=True), None, True, False, "full"))
        out.append(("abstext/noorigin", dict(relativize=False, use_origin=True), None, False, True, "full"))
        out.append(("abstext/rel", dict(relativize=False, use_origin=True), None, True, True, "norm"))
    return out


def render(rd, o, pres, chunks):
    label, tk, _, _, _, _ = pres
    kw = {}
    if tk.get("use_origin"):
        kw["origin"] = o
        kw["relativize"] = tk["relativize"]
    if chunks is not None and chunks[0] == "legacy-keywords":
        # the keyword spelling that predates RdataStyle: to_text(chunksize=, separator=)
        return rd.to_text(**kw, chunksize=chunks[1], separator=chunks[2])
    if chunks is not None:
        style = dns.rdata.RdataStyle(origin=kw.get("origin"), relativize=kw.get("relativize", False) if "origin" in kw else False,
                                     base64_chunk_size=chunks[0], hex_chunk_size=chunks[1], txt_is_utf8=len(chunks) > 2)
        return rd.to_styled_text(style)
    return rd.to_text(**kw)


def text_probe(val, origin, pres, chunks, wrap):
    """returns None if the round trip holds, else (kind, detail)"""
    rd = GR.build(val)
    o = mkname(origin) if origin else None
    label, tk, _, use_o, relativize, mode = pres
    try:
        t = render(rd, o, pres, chunks)
    except Exception as e:
        fam = classify_exception(e)
        return ("to_text-raised-" + fam + ":" + core.exc_sig(e), f"to_text raised {e!r}")
    if mode == "self" or val.tname in ("TSIG", "TKEY"):
        expect = rd  # (the text parsers of TSIG and TKEY never relativize: the names of these meta RRs stay absolute)
    else:
        expect = GR.build(normalized(val, origin, mode))
    src = t
    if wrap == "comment":
        src = t + " ; a comment\n"
    elif wrap == "paren":
        src = "(\n " + t + "\n )"
    try:
        if wrap == "midline":
            tok = dns.tokenizer.Tokenizer("prefix " + t + " ; tail\nnext")
            assert tok.get().value == "prefix"
            rd2 = dns.rdata.from_text(val.rdclass, val.rdtype, tok, o if use_o else None, relativize)
            nxt = tok.get()
            if nxt.value != "next":
                return ("tokenizer-position-wrong", f"text={t!r}: token after record is {nxt.value!r}")
        else:
            rd2 = dns.rdata.from_text(val.rdclass, val.rdtype, src, o if use_o else None, relativize)
    except Exception as e:
        fam = classify_exception(e)
        return ("parse-raised-" + fam + ":" + type(e).__name__, f"text={t!r}: {e!r}")
    if rd2 != expect or not (rd2 == expect):
        return ("mismatch", f"text={t!r} parsed={rd2!r} expected={expect!r}")
    try:
        wo = o if (mode != "self") else None
        if rd2.to_wire(origin=wo) != expect.to_wire(origin=wo) and not (origin and case_variant_of_origin(val, origin)):
            return ("wire-mismatch", f"text={t!r}")
    except Exception as e:
        return ("to_wire-raised:" + core.exc_sig(e), f"text={t!r}: {e!r}")
    return None


def generic_probe(val, origin, with_origin):
    rd = GR.build(val)
    o = mkname(origin) if origin else None
    try:
        g = rd.to_generic(origin=o)
        t = g.to_text()
    except Exception as e:
        return ("generic-to_text-raised:" + core.exc_sig(e), repr(e))
    try:
        if with_origin == "abs":
            # an origin is supplied but relativization is off: every name stays absolute, as for the ordinary text form
            rd2 = dns.rdata.from_text(val.rdclass, val.rdtype, t, o, False)
            expect = GR.build(normalized(val, origin, "full"))
        elif with_origin:
            rd2 = dns.rdata.from_text(val.rdclass, val.rdtype, t, o, True)
            # (the generic form is decoded from its octets; TSIG's wire decoder is origin-blind, like its text parser: the
            # algorithm name stays absolute even when it happens to lie under the origin)
            expect = rd if val.tname == "TSIG" else GR.build(normalized(val, origin, "norm"))
        else:
            rd2 = dns.rdata.from_text(val.rdclass, val.rdtype, t, None, True)
            expect = GR.build(normalized(val, origin, "full")) if origin else rd
    except Exception as e:
        fam = classify_exception(e)
        return ("generic-parse-raised-" + fam + ":" + type(e).__name__, f"text={t!r}: {e!r}")
    if rd2 != expect:
        return ("generic-mismatch", f"text={t!r} parsed={rd2!r} expected={expect!r}")
    return None


def relto_probe(val, origin):
    """the zone reader's situation after a $ORIGIN below the zone origin: names in the text are relative to the current
    origin, the record is to be relativized to the zone origin (from_text(..., origin=current, relativize_to=zone))"""
    rd = GR.build(val)
    cur = mkname(origin)
    zone_o = tuple(origin[1:])
    try:
        t = rd.to_text(origin=cur, relativize=True)
    except Exception as e:
        return ("to_text-raised:" + core.exc_sig(e), repr(e))
    try:
        rd2 = dns.rdata.from_text(val.rdclass, val.rdtype, t, origin=cur, relativize=True, relativize_to=mkname(zone_o))
    except Exception as e:
        return ("parse-raised-" + classify_exception(e) + ":" + type(e).__name__, f"text={t!r}: {e!r}")
    expect = GR.build(normalized(val, zone_o, "norm"))
    if rd2 != expect or not (rd2 == expect):
        return ("mismatch", f"text={t!r} parsed={rd2!r} expected={expect!r}")
    return None


def check_value(ctx, val, origin):
    rng = ctx.rng
    t = val.tname
    case = {"kind": "value", "type": t, "rdtype": val.rdtype, "rdclass": val.rdclass, "origin": list(origin) if origin else None, "info": describe(val), "pickle": pickle.dumps((val, origin)).hex()}
    try:
        GR.build(val)
    except Exception as e:
        ctx.violation(f"constructor-rejects-wellformed:{t}", f"{describe(val)}: {e!r}", case)
        return
    if origin and case_variant_of_origin(val, origin):
        # a name under the origin only up to ASCII case takes the origin's spelling when text is relativized:
        # same DNS name, different bytes (interpretive decision shared with C01/C02); not exercised here
        ctx.count("obs.skipped_origin_case_variant")
        return
    press = presentations(rng, origin is not None, val.has_relative())
    if t == "OPT":
        press = []  # OPT is a pseudo-RR without a master-file form (no from_text); only the RFC 3597 form applies
    main_ok = bool(press)
    for pres in press:
        chunks = rng.choice((None, None, (0, 0), (1, 1), (4, 4), (32, 128), (64, 64), (128, 32), (32, 128, "utf8"), (32, 128, "utf8"),
                             ("legacy-keywords", 16, " "), ("legacy-keywords", 64, "\t")))
        wrap = rng.choice(("none", "none", "comment", "paren", "midline"))
        ctx.count("evaluations")
        ctx.count("mon.text_roundtrip")
        ctx.seen(("rt", t, val.tags, pres[0]))
        ctx.table("presentation", f"{pres[0]}|chunks={chunks}|{wrap}")
        try:
            res = text_probe(val, origin, pres, chunks, wrap)
        except Exception as e:
            ctx.violation(f"harness:{t}:" + core.exc_sig(e), repr(e), case)
            continue
        if res is not None:
            main_ok = False
            kind, detail = res
            cause = diagnose(val, lambda v2: text_probe(v2, origin, pres, chunks, wrap) is not None)
            ctx.violation(f"text-rt:{t}:{kind}:{cause}", f"{describe(val)} origin={origin!r} presentation={pres[0]} chunks={chunks} wrap={wrap}: {detail}",
                          dict(case, pres=pres[0], chunks=chunks, wrap=wrap))
            break
    if main_ok and origin is not None and len(origin) >= 3 and not val.has_relative() and t not in GR.META_TYPES:
        # (only for values whose ordinary text round trip holds: the known text findings are diagnosed there, not here)
        ctx.count("evaluations")
        ctx.count("mon.relativize_to_other_than_origin")
        res = relto_probe(val, origin)
        if res is not None:
            ctx.violation(f"text-rt:{t}:relativize_to-differs-from-origin:{res[0]}", f"{describe(val)} origin={origin!r}: {res[1]}", dict(case, relto=True))
    # RFC 3597 generic form of known and unknown types
    for with_origin in ((False, True, "abs") if origin is not None else (False,)):
        ctx.count("evaluations")
        ctx.count("mon.generic_roundtrip")
        res = generic_probe(val, origin, with_origin)
        if res is not None:
            kind, detail = res
            names_under = any(RN.is_subdomain(n.labels if n.labels and n.labels[-1] == b"" else n.labels + tuple(origin), tuple(origin)) for n in val.names()) if origin else False
            ctx.violation(f"text-rt:{t}:{kind}:{'origin-not-relativized' if with_origin == 'abs' else 'origin' if with_origin else 'noorigin'}:{'name-under-origin' if names_under else 'no-name-under-origin'}",
                          f"{describe(val)} origin={origin!r}: {detail}", dict(case, generic=True, with_origin=with_origin))


def check_wire_survivor(ctx, rdclass, rdtype, tname, data):
    """a record accepted from (hostile) wire must always produce text"""
    try:
        rd = dns.rdata.from_wire(rdclass, rdtype, data, 0, len(data), None)
    except dns.exception.DNSException:
        return
    except Exception:
        return  # C02/C04 own foreign exceptions of the decoder
    ctx.count("evaluations")
    ctx.count("mon.wire_survivor_to_text")
    case = {"kind": "wire", "rdclass": rdclass, "rdtype": rdtype, "type": tname, "data": data}
    for fn, what in ((lambda: rd.to_text(), "to_text"), (lambda: repr(rd), "repr"), (lambda: rd.to_text(origin=mkname((b"example", b"")), relativize=True), "to_text-origin")):
        try:
            fn()
        except Exception as e:
            ctx.violation(f"wire-accepted-record-{what}-raises:{tname}:" + core.exc_sig(e), f"type {tname} data={data.hex()}: {e!r}", case)
            return
    ctx.seen(("wiresurv", tname, len(data) % 7))


NUMS = ["0", "1", "255", "256", "65535", "65536", "4294967295", "4294967296", "99999999999999999999", "-1", "1.5", "1e3", "0x10", "010", "+5", "٣", "²"]


_BIG = {}


def big_blob(kind, n):
    """valid base64 / hex text of n octets (cached)"""
    if (kind, n) not in _BIG:
        import base64

        raw = bytes((i * 7 + 3) & 0xFF for i in range(n))
        _BIG[(kind, n)] = base64.b64encode(raw).decode() if kind == "b64" else raw.hex()
    return _BIG[(kind, n)]


def mutate_text(rng, t):
    toks = t.split(" ")
    k = rng.choice(("num", "num", "case", "dup", "drop", "quote", "esc", "swap", "append") + (("blowup",) if rng.random() < 0.25 else ()))
    i = rng.randrange(len(toks))
    if k == "blowup":
        # a key / MAC / digest field far larger than its length prefix can express (256, 65536 and 70000 octets): the reader
        # refuses it, or what it accepted can be encoded
        cands = [j for j, x in enumerate(toks) if len(x) >= 4 and x.replace("=", "").replace("+", "").replace("/", "").isalnum()]
        j = rng.choice(cands) if cands else i
        ishex = all(c in "0123456789abcdefABCDEF" for c in toks[j]) and len(toks[j]) % 2 == 0
        toks[j] = big_blob("hex" if ishex and rng.random() < 0.7 else "b64", rng.choice((256, 65536, 70000)))
    elif k == "num":
        toks[i] = rng.choice(NUMS)
    elif k == "case":
        toks[i] = toks[i].swapcase()
    elif k == "dup":
        toks.insert(i, toks[i])
    elif k == "drop" and len(toks) > 1:
        del toks[i]
    elif k == "quote":
        toks[i] = '"' + toks[i].replace('"', "") + '"'
    elif k == "esc":
        toks[i] = toks[i] + rng.choice(("\\000", "\\255", "\\200", "\\\\", "\\.", "\\065"))
    elif k == "swap" and len(toks) > 1:
        j = rng.randrange(len(toks))
        toks[i], toks[j] = toks[j], toks[i]
    else:
        toks.append(rng.choice(NUMS + ["x", "A", "TYPE65000", "-", "."]))
    return " ".join(toks), k


def check_text_survivor(ctx, rdclass, rdtype, tname, text, mk):
    """a record accepted from text must encode to wire and print again"""
    try:
        rd = dns.rdata.from_text(rdclass, rdtype, text, None, False)
    except dns.exception.DNSException:
        return
    except Exception:
        return  # C04 owns foreign exceptions of the parser
    ctx.count("evaluations")
    ctx.count("mon.text_survivor_to_wire")
    ctx.seen(("textsurv", tname, mk))
    case = {"kind": "text", "rdclass": rdclass, "rdtype": rdtype, "type": tname, "text": text}
    try:
        w = rd.to_wire()
    except dns.name.NeedAbsoluteNameOrOrigin:
        return
    except Exception as e:
        ctx.violation(f"text-accepted-record-to_wire-raises:{tname}:" + core.exc_sig(e), f"type {tname} text={text!r}: {e!r}", case)
        return
    try:
        rd.to_text()
    except Exception as e:
        ctx.violation(f"text-accepted-record-to_text-raises:{tname}:" + core.exc_sig(e), f"type {tname} text={text!r}: {e!r}", case)
        return
    # and the wire must be decodable to an equal record (the text was accepted, so it is a value)
    try:
        rd2 = dns.rdata.from_wire(rdclass, rdtype, w, 0, len(w), None)
        if rd2 != rd:
            ctx.violation(f"text-accepted-record-wire-roundtrip-differs:{tname}", f"type {tname} text={text!r} wire={w.hex()} back={rd2!r}", case)
    except dns.exception.DNSException as e:
        ctx.violation(f"text-accepted-record-wire-not-decodable:{tname}:" + type(e).__name__, f"type {tname} text={text!r} wire={w.hex()}: {e!r}", case)
    except Exception as e:
        ctx.violation(f"text-accepted-record-wire-decode-foreign:{tname}:" + core.exc_sig(e), f"type {tname} text={text!r}: {e!r}", case)


def run(spec, ctx):
    rng = ctx.rng
    for t in spec["types"]:
        wires, texts = [], []
        for i in range(spec["n_rt"]):
            if ctx.expired(0.6):
                break
            use_origin = rng.random() < 0.6
            origin = GN.origin(rng, plain=True) if use_origin else None
            if origin == (b"",):
                origin = (b"example", b"")
            val = GR.gen(rng, t, origin, relative_ok=use_origin)
            check_value(ctx, val, origin)
            if origin is None:
                try:
                    rd = GR.build(val)
                    wires.append((val.rdclass, val.rdtype, rd.to_wire()))
                    texts.append((val.rdclass, val.rdtype, rd.to_text()))
                except Exception:
                    pass
            if i == 0 and len(ctx.samples) < 5:
                try:
                    ctx.sample({"type": t, "text": GR.build(val).to_text(origin=mkname(origin) if origin else None)[:200]})
                except Exception:
                    pass
        for i in range(spec["n_host"]):
            if ctx.expired(0.8) or not wires:
                break
            rdclass, rdtype, w = rng.choice(wires)
            data, mk = mutate(rng, w)
            check_wire_survivor(ctx, rdclass, rdtype, t, data)
        for i in range(spec["n_textmut"]):
            if ctx.expired(1.0) or not texts:
                break
            rdclass, rdtype, tx = rng.choice(texts)
            text, mk = mutate_text(rng, tx)
            check_text_survivor(ctx, rdclass, rdtype, t, text, mk)


def replay(case, ctx):
    k = case["kind"]
    if k == "wire":
        check_wire_survivor(ctx, case["rdclass"], case["rdtype"], case["type"], case["data"])
    elif k == "text":
        check_text_survivor(ctx, case["rdclass"], case["rdtype"], case["type"], case["text"], "replay")
    else:
        val, origin = pickle.loads(bytes.fromhex(case["pickle"]))
        check_value(ctx, val, origin)
