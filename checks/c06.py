"""C06 — name comparison is the DNSSEC canonical order, coherent with equality and hash."""

import dns.exception
import dns.name
import dns.namedict

from vlib import core
from vlib.gen import names as G
from vlib.ref import names as R

PROP = "C06"
LEVEL = "exploration"
RULE = (
    "pairs/triples of names over an alphabet concentrated on the case-fold neighbours (@ A Z [ \\ ] ^ _ ` a z {), 0x00, "
    "0xff, with shared suffixes, case variants, prefix relations, both relativities; successor/predecessor sweep over "
    "every last-octet value x {extendable, 63-octet label, name at 255} x prefix_ok. Distinct by (mode, relation, order "
    "sign, relativity pair, fold-neighbour class) or (succ/pred, last octet, shape, prefix_ok)."
)
RULE += " " + (
    "Also: the digestable form under an origin; `name - origin` and choose_relativity against relativize; label-boundary shifts."
)
ASSUMPTIONS = [
    "reference order vlib/ref/names.py (RFC 4034 §6.1: explicit A-Z fold table, reversed label tuples, relative < absolute)",
    "minimality of successor/predecessor is not demanded, only strict order / wrap to origin",
]
REQUIRED = ["mon.canonical_form_with_origin", "mon.relativize_operator_spelling", "mon.relativize_roundtrip_relative_origin", "mon.pair_order", "mon.triple_transitivity", "mon.successor", "mon.predecessor", "mon.relativize_roundtrip", "mon.namedict"]
BUDGET = {"quick": 40.0, "thorough": 420.0}

ALPHA = b"@AZ[\\]^_`az{\x00\xff" + b"aAbBzZ" + b"0-*"
REL = {"NONE": dns.name.NameRelation.NONE, "SUPERDOMAIN": dns.name.NameRelation.SUPERDOMAIN, "SUBDOMAIN": dns.name.NameRelation.SUBDOMAIN,
       "EQUAL": dns.name.NameRelation.EQUAL, "COMMONANCESTOR": dns.name.NameRelation.COMMONANCESTOR}


def shards(tier, seed):
    mult = 1 if tier == "quick" else 90
    return [{"n_pairs": 14000 * mult, "n_triples": 5000 * mult, "n_succ": 1500 * mult, "n_nd": 150 * mult, "exh": i, "exh_n": 16} for i in range(16)]


def lab(rng):
    n = rng.choice((1, 1, 1, 2, 2, 3))
    return bytes(rng.choice(ALPHA) for _ in range(n))


def gname(rng, base=None):
    r = rng.random()
    if base is not None and r < 0.55:
        # derive from base: case variant, child, parent, sibling, tweak one octet
        k = rng.randrange(8)
        b = list(base)
        absolute = bool(b) and b[-1] == b""
        body = b[:-1] if absolute else b
        if k == 0:
            body = list(G.case_variant(rng, body))
        elif k == 1:
            body = [lab(rng)] + body
        elif k == 2 and body:
            body = body[1:]
        elif k == 3 and body:
            body[0] = lab(rng)
        elif k == 4 and body:
            i = rng.randrange(len(body))
            l = bytearray(body[i])
            j = rng.randrange(len(l))
            l[j] = rng.choice(ALPHA)
            body[i] = bytes(l)
        elif k == 5 and body:
            i = rng.randrange(len(body))
            body[i] = body[i] + bytes([rng.choice(ALPHA)]) if len(body[i]) < 63 else body[i][:-1] or b"a"
        elif k == 7 and len(body) >= 2:
            # the same octets with the label boundary somewhere else: "a.b" "c"  versus  "a" "b.c" (a dot inside a label is an
            # ordinary octet; the two are different names with the same number of labels)
            i = rng.randrange(len(body) - 1)
            l1, l2 = body[i], body[i + 1]
            if b"." in l1 and len(l2) + 1 + len(l1.rsplit(b".", 1)[1]) <= 63:
                a, t2 = l1.rsplit(b".", 1)
                if a:
                    body[i], body[i + 1] = a, t2 + b"." + l2
            elif b"." in l2 and len(l1) + 1 + len(l2.split(b".", 1)[0]) <= 63:
                h, t2 = l2.split(b".", 1)
                if t2:
                    body[i], body[i + 1] = l1 + b"." + h, t2
            elif len(l1) + 2 <= 63:
                body[i] = l1 + b"." + bytes([rng.choice(b"abAB")])  # no dot yet: make a dotted label for later derivations to shift
        elif k == 6 and body:
            # differ by bit 0x20 in an octet that is NOT an ASCII letter (0xC0-0xFE are letters in Latin-1, "[" / "{" neighbours
            # in ASCII): such names are different names and order by raw octet value
            i = rng.randrange(len(body))
            l = bytearray(body[i])
            j = rng.randrange(len(l))
            l[j] = rng.choice((0xC0, 0xC9, 0xDE, 0xE0, 0xE9, 0xFE, 0xD7, 0xF7, 0x40, 0x60, 0x5B, 0x7B))
            body[i] = bytes(l)
            b2 = list(body)
            l2 = bytearray(l)
            l2[j] ^= 0x20
            # half of the time hand back the flipped twin instead, so that both end up in one family
            if rng.random() < 0.5:
                body[i] = bytes(l2)
        if rng.random() < 0.1:
            absolute = not absolute
        n = tuple(body) + ((b"",) if absolute else ())
        if R.fits(n):
            return n
    if r < 0.9:
        k = rng.choice((0, 1, 1, 2, 2, 3, 4))
        n = tuple(lab(rng) for _ in range(k))
        return n + (b"",) if rng.random() < 0.6 else n
    return G.name(rng)


def mk(l):
    return dns.name.Name(l)


def sign(x):
    return (x > 0) - (x < 0)


def check_pair(ctx, a, b):
    ctx.count("evaluations")
    ctx.count("mon.pair_order")
    case = {"kind": "pair", "a": list(a), "b": list(b)}
    na, nb = mk(a), mk(b)
    try:
        rel, order, nl = na.fullcompare(nb)
        rc = R.cmp(a, b)
        rrel, rn = R.relation(a, b)
        ctx.seen(("pair", rrel, rc, bool(a and a[-1] == b""), bool(b and b[-1] == b""), rn > 1))
        if sign(order) != rc:
            ctx.violation("order-differs-from-rfc4034", f"{a!r} vs {b!r}: lib order {order}, reference {rc}", case)
        if rel != REL[rrel] or nl != rn:
            ctx.violation("relation-or-common-labels-wrong", f"{a!r} vs {b!r}: lib ({rel!r},{nl}) reference ({rrel},{rn})", case)
        ops = {"lt": na < nb, "le": na <= nb, "gt": na > nb, "ge": na >= nb, "eq": na == nb, "ne": na != nb}
        want = {"lt": rc < 0, "le": rc <= 0, "gt": rc > 0, "ge": rc >= 0, "eq": rc == 0, "ne": rc != 0}
        if ops != want:
            ctx.violation("rich-comparison-inconsistent", f"{a!r} vs {b!r}: {ops} want {want}", case)
        if R.equal(a, b) != (na == nb):
            ctx.violation("equality-not-ascii-case-insensitive", f"{a!r} vs {b!r}: lib {na == nb}", case)
        if na == nb and hash(na) != hash(nb):
            ctx.violation("equal-names-hash-differently", f"{a!r} vs {b!r}", case)
        # antisymmetry on the library's own answers
        rel2, order2, nl2 = nb.fullcompare(na)
        if sign(order2) != -sign(order) or nl2 != nl:
            ctx.violation("order-not-antisymmetric", f"{a!r} vs {b!r}: {order} / {order2}", case)
        # predicates
        if na.is_subdomain(nb) != (rrel in ("SUBDOMAIN", "EQUAL")) or na.is_superdomain(nb) != (rrel in ("SUPERDOMAIN", "EQUAL")):
            ctx.violation("subdomain-predicates-disagree", f"{a!r} vs {b!r}: sub={na.is_subdomain(nb)} super={na.is_superdomain(nb)} ref={rrel}", case)
        # split / parent agree with the common-label count
        if rn > 0 and rn <= len(a):
            p, s = na.split(rn)
            p2, s2 = nb.split(rn)
            if not (s == s2):
                ctx.violation("split-at-common-labels-not-equal", f"{a!r} vs {b!r} n={rn}: {s.labels!r} {s2.labels!r}", case)
        if rrel == "SUBDOMAIN" and len(a) == len(b) + 1:
            if na.parent() != nb:
                ctx.violation("parent-disagrees-with-relation", f"{a!r} vs {b!r}", case)
        # one canonical form: the digestable form of a relative name under an origin is the lower-cased wire form of the full
        # name, on both spellings of to_wire (with and without a file)
        if not (a and a[-1] == b"") and (b and b[-1] == b"") and R.fits(tuple(a) + tuple(b)):
            import io as _io

            ctx.count("mon.canonical_form_with_origin")
            want_c = b"".join(bytes([len(l)]) + R.fold(l) for l in tuple(a) + tuple(b))
            got_c = na.to_digestable(nb)
            f = _io.BytesIO()
            na.to_wire(f, None, nb, True)
            if got_c != want_c or f.getvalue() != want_c:
                ctx.violation("canonical-form-of-relative-name-under-origin-not-lower-cased", f"{a!r} origin {b!r}: to_digestable {got_c!r}, to_wire(file, canonicalize) {f.getvalue()!r}", case)
        # relativize / derelativize round trip
        both_rel = not (a and a[-1] == b"") and not (b and b[-1] == b"")
        if (b and b[-1] == b"" and a and a[-1] == b"") or both_rel:
            # (absolute name, absolute origin) and (relative name, relative origin, the empty one included)
            ctx.count("mon.relativize_roundtrip")
            if both_rel:
                ctx.count("mon.relativize_roundtrip_relative_origin")
            r = na.relativize(nb)
            # (a relative name that is not under the relative origin stays as it is, and derelativizing any relative name
            # appends the origin: the round trip is only defined for names under the origin there)
            back = r.derelativize(nb) if not both_rel or rrel in ("SUBDOMAIN", "EQUAL") else na
            if back != na:
                ctx.violation("relativize-derelativize-not-identity", f"{a!r} origin {b!r}: {r.labels!r} -> {back.labels!r}", case)
            if rrel in ("SUBDOMAIN", "EQUAL"):
                if r.labels != a[: len(a) - len(b)]:
                    ctx.violation("relativize-prefix-not-byte-identical", f"{a!r} origin {b!r}: {r.labels!r}", case)
            elif r.labels != a:
                ctx.violation("relativize-changed-non-subdomain", f"{a!r} origin {b!r}: {r.labels!r}", case)
            # the operator spelling and choose_relativity are the same function of (name, origin)
            ctx.count("mon.relativize_operator_spelling")
            if (na - nb).labels != r.labels:
                ctx.violation(f"subtraction-differs-from-relativize:{rrel}", f"{a!r} - {b!r}: {(na - nb).labels!r} vs {r.labels!r}", case)
            if nb.is_absolute() and na.is_absolute() and na.choose_relativity(nb, True).labels != r.labels:
                ctx.violation(f"choose_relativity-differs-from-relativize:{rrel}", f"{a!r} origin {b!r}", case)
    except Exception as e:
        ctx.violation("compare-raised:" + core.exc_sig(e), f"{a!r} vs {b!r}: {e!r}", case)


def check_triple(ctx, a, b, c):
    ctx.count("evaluations")
    ctx.count("mon.triple_transitivity")
    case = {"kind": "triple", "a": list(a), "b": list(b), "c": list(c)}
    try:
        na, nb, nc = mk(a), mk(b), mk(c)
        ab, bc, ac = na <= nb, nb <= nc, na <= nc
        if ab and bc and not ac:
            ctx.violation("order-not-transitive", f"{a!r} <= {b!r} <= {c!r} but not a <= c", case)
        if (na < nb) and (nb < nc) and not (na < nc):
            ctx.violation("order-not-transitive", f"{a!r} < {b!r} < {c!r} but not a < c", case)
        if na == nb and nb == nc and not na == nc:
            ctx.violation("equality-not-transitive", f"{a!r} {b!r} {c!r}", case)
        got = [n.labels for n in sorted([na, nb, nc])]
        want = sorted([a, b, c], key=R.key)
        if [R.key(x) for x in got] != [R.key(x) for x in want]:
            ctx.violation("sorted-differs-from-reference", f"{got!r} vs {want!r}", case)
        ctx.seen(("triple", R.cmp(a, b), R.cmp(b, c), R.cmp(a, c)))
    except Exception as e:
        ctx.violation("compare-raised:" + core.exc_sig(e), f"{a!r} {b!r} {c!r}: {e!r}", case)


def check_succ(ctx, name, origin, prefix_ok):
    ctx.count("evaluations")
    case = {"kind": "succ", "name": list(name), "origin": list(origin), "prefix_ok": prefix_ok}
    n, o = mk(name), mk(origin)
    last = name[0][-1] if len(name) > len(origin) else -1
    shape = ("L63" if len(name) > len(origin) and len(name[0]) == 63 else "l") + ("X" if R.wire_len(name) >= 254 else "")
    try:
        ctx.count("mon.successor")
        s = n.successor(o, prefix_ok)
        ctx.seen(("succ", last, shape, prefix_ok))
        if not R.fits(s.labels) or not R.is_subdomain(s.labels, origin):
            ctx.violation("successor-not-a-name-in-zone", f"{name!r} in {origin!r}: {s.labels!r}", case)
        elif R.cmp(s.labels, name) <= 0:
            if R.equal(s.labels, origin):
                # wrap: legitimate only when nothing greater can be constructed by the RFC 4471 moves
                if True:
                    wrap_ok = True
                    # a greater name exists if some label below the origin has a non-0xff octet, or the name
                    # can be extended (label < 63 and total < 255), or (prefix_ok) prefixed (total <= 253)
                    cur = name
                    while len(cur) > len(origin):
                        l = cur[0]
                        if any(c != 0xFF for c in l):
                            wrap_ok = False
                        if len(l) < 63 and R.wire_len(cur) < 255:
                            wrap_ok = False
                        cur = cur[1:]
                    if prefix_ok and R.wire_len(name) <= 253:
                        wrap_ok = False
                    if not wrap_ok:
                        ctx.violation("successor-wrapped-although-greater-exists", f"{name!r} in {origin!r} prefix_ok={prefix_ok}", case)
                    else:
                        ctx.count("obs.successor_wraps")
            else:
                lo = bytes(name[0][-1:]).decode("latin1") if len(name) > len(origin) else ""
                cls = "Z" if lo == "Z" else "upper" if lo.isupper() else "other"
                ctx.violation(f"successor-not-after-name:last-octet-{cls}", f"{name!r} in {origin!r} prefix_ok={prefix_ok}: successor {s.labels!r} sorts at or before", case)
        ctx.count("mon.predecessor")
        p = n.predecessor(o, prefix_ok)
        if not R.fits(p.labels) or not R.is_subdomain(p.labels, origin):
            ctx.violation("predecessor-not-a-name-in-zone", f"{name!r} in {origin!r}: {p.labels!r}", case)
        elif R.equal(name, origin):
            if R.cmp(p.labels, name) < 0:
                ctx.violation("predecessor-of-origin-before-origin", f"{origin!r}: {p.labels!r}", case)
        elif R.cmp(p.labels, name) >= 0:
            ctx.violation("predecessor-not-before-name", f"{name!r} in {origin!r} prefix_ok={prefix_ok}: predecessor {p.labels!r}", case)
        # relative flavour preserves relativity and agrees with the absolute one
        rel = name[: len(name) - len(origin)]
        sr = mk(rel).successor(o, prefix_ok)
        if sr.is_absolute():
            ctx.violation("successor-relativity-not-preserved", f"{rel!r} in {origin!r}: {sr.labels!r}", case)
        elif sr.derelativize(o) != s:
            ctx.violation("successor-relative-differs-from-absolute", f"{rel!r} in {origin!r}: {sr.labels!r} vs {s.labels!r}", case)
    except Exception as e:
        ctx.violation("successor-raised:" + core.exc_sig(e), f"{name!r} in {origin!r}: {e!r}", case)


def succ_case(rng, last):
    origin = rng.choice(((b"",), (b"example", b""), (b"Zz", b"com", b"")))
    shape = rng.choice(("short", "l63", "l62", "full", "full63", "deep"))
    lo = bytes([last])
    fill = bytes([rng.choice(ALPHA)])
    if shape == "short":
        sub = (bytes(rng.choice(ALPHA) for _ in range(rng.randint(0, 3))) + lo,)
    elif shape == "l63":
        sub = (fill * 62 + lo,)
    elif shape == "l62":
        sub = (fill * 61 + lo,)
    elif shape == "deep":
        sub = (lo, fill, fill * 2)
    else:
        budget = 255 - R.wire_len(origin)
        labs = []
        first = 63 if shape == "full63" else rng.choice((1, 5, 62))
        first = min(first, budget - 1)
        labs.append(fill * (first - 1) + lo)
        used = first + 1
        while budget - used >= 2:
            n = min(63, budget - used - 1)
            if budget - used - (n + 1) == 1:
                n -= 1
            if n <= 0:
                break
            labs.append(bytes([rng.choice((0xFF, 0xFF, rng.choice(ALPHA)))]) * n)
            used += n + 1
        sub = tuple(labs)
    name = sub + origin
    if not R.fits(name):
        return None
    return name, origin


def check_namedict(ctx, rng):
    ctx.count("evaluations")
    ctx.count("mon.namedict")
    keys = []
    base = gname(rng)
    for _ in range(rng.randint(1, 8)):
        n = gname(rng, base)
        if n and n[-1] == b"":
            keys.append(n)
    if not keys:
        keys = [(b"",)]
    q = gname(rng, rng.choice(keys))
    if not (q and q[-1] == b""):
        q = q + (b"",)
        if not R.fits(q):
            return
    nd = dns.namedict.NameDict()
    for i, k in enumerate(keys):
        nd[mk(k)] = i
    case = {"kind": "namedict", "keys": [list(k) for k in keys], "q": list(q)}
    cands = [k for k in keys if R.is_subdomain(q, k)]
    try:
        got = nd.get_deepest_match(mk(q))
        if not cands:
            ctx.violation("namedict-match-without-superdomain", f"{q!r} in {keys!r}: {got!r}", case)
        else:
            best = max(len(k) for k in cands)
            if len(got[0]) != best or not R.is_subdomain(q, got[0].labels):
                ctx.violation("namedict-not-deepest-match", f"{q!r} in {keys!r}: {got[0].labels!r}", case)
    except KeyError:
        if cands:
            ctx.violation("namedict-missed-superdomain", f"{q!r} in {keys!r}", case)
    except Exception as e:
        ctx.violation("namedict-raised:" + core.exc_sig(e), f"{q!r} in {keys!r}: {e!r}", case)


def run(spec, ctx):
    rng = ctx.rng
    for i in range(spec["n_pairs"]):
        if ctx.expired(0.4):
            break
        a = gname(rng)
        b = gname(rng, a)
        check_pair(ctx, a, b)
        if i < 3:
            ctx.sample({"pair": [R.to_text(a), R.to_text(b)], "ref_cmp": R.cmp(a, b)})
    for i in range(spec["n_triples"]):
        if ctx.expired(0.65):
            break
        a = gname(rng)
        b = gname(rng, a)
        c = gname(rng, rng.choice((a, b)))
        check_triple(ctx, a, b, c)
    # exhaustive in the last octet
    for last in range(256):
        if last % spec["exh_n"] != spec["exh"]:
            continue
        for _ in range(12):
            sc = succ_case(rng, last)
            if sc:
                for pk in (True, False):
                    check_succ(ctx, sc[0], sc[1], pk)
        ctx.count("exhaustive.last_octet_values")
    for i in range(spec["n_succ"]):
        if ctx.expired(0.9):
            break
        o = G.origin(rng)
        sub = G.rel_labels(rng, 254 - R.wire_len(o), shape=rng.choice(("short", "full", "fewmax", "empty")))
        n = sub + o
        if R.fits(n):
            check_succ(ctx, n, o, rng.random() < 0.5)
            if i < 2:
                ctx.sample({"successor_of": R.to_text(n), "origin": R.to_text(o)})
    for i in range(spec["n_nd"]):
        check_namedict(ctx, rng)


def replay(case, ctx):
    tb = lambda ls: tuple(bytes(x) for x in ls)
    k = case["kind"]
    if k == "pair":
        check_pair(ctx, tb(case["a"]), tb(case["b"]))
    elif k == "triple":
        check_triple(ctx, tb(case["a"]), tb(case["b"]), tb(case["c"]))
    elif k == "succ":
        check_succ(ctx, tb(case["name"]), tb(case["origin"]), case["prefix_ok"])
    elif k == "namedict":
        nd = dns.namedict.NameDict()
        for i, kk in enumerate(case["keys"]):
            nd[mk(tb(kk))] = i
        ctx.count("mon.namedict")
