"""C07 — records and record sets have value semantics and exact set algebra."""

import copy

import dns.exception
import dns.immutable
import dns.name
import dns.rdata
import dns.rdataset
import dns.rdatatype
import dns.rrset
import dns.set

from vlib import core
from vlib.gen import names as GN
from vlib.gen import rdata as GR
from vlib.ref import names as RN

PROP = "C07"
LEVEL = "exploration"
RULE = (
    "(a) immutability: every type-table value and every generated Name is attacked through every slot (assign, delete, "
    "new attribute) and walked deeply for mutable containers; (b) equality/hash/order of record pairs (independent values, "
    "case variants of embedded names, copies) against the canonical encoding; (c) random operation sequences on dns.set.Set, "
    "Rdataset, RRset and ImmutableRdataset replayed on an ordered-set reference model (contents, order, TTL, predicates, "
    "aliasing, type/covers refusal, singleton rule). Distinct by (type, tags) for values and by (container, op, outcome class) "
    "sequences fingerprints for histories."
)
RULE += " " + (
    "Also: records built from the caller's mutable containers (bytearray, lists) must not follow later changes of those containers; augmented assignment keeps object identity; an ImmutableRdataset does not follow its source. The to_generic() twin of every record compares equal."
)
ASSUMPTIONS = [
    "reference ordered-set + TTL model in this file (insertion order of survivors; TTL merged by union/intersection/update/add(ttl))",
    "case-insensitivity of embedded names is demanded for the RFC 4034 §6.2 types (minus NSEC); LP and CH A are owned by C15",
]
REQUIRED = ["mon.immutability_attack", "mon.deep_walk", "mon.deep_walk_other_producers", "mon.eq_hash_order", "mon.set_step", "mon.rdataset_step", "mon.immutable_rdataset_mutator", "mon.immutable_rdataset_source_mutated", "mon.callers_mutable_arguments", "mon.generic_twin_equality"]
BUDGET = {"quick": 40.0, "thorough": 420.0}

SINGLETONS = {5, 6, 39, 47, 30}  # CNAME SOA DNAME NSEC NXT


def shards(tier, seed):
    mult = 1 if tier == "quick" else 300
    types = GR.ALL_TYPES
    return [{"types": types[i::16], "n_val": 25 * mult, "n_pairs": 60 * mult, "n_hist": 160 * mult, "n_rdhist": 120 * mult} for i in range(16)]


# ------------------------------------------------------------------------------------------ immutability

IMMUTABLE_SCALARS = (int, float, str, bytes, bool, type(None))


def deep_walk(ctx, obj, path, seen, bad, depth=0):
    """collect paths to anything that is a mutable container"""
    if depth > 8 or id(obj) in seen:
        return
    seen.add(id(obj))
    if isinstance(obj, IMMUTABLE_SCALARS):
        return
    if isinstance(obj, (list, dict, set, bytearray)):
        bad.append((path, type(obj).__name__))
        return
    if isinstance(obj, (tuple, frozenset)):
        for i, x in enumerate(obj):
            deep_walk(ctx, x, f"{path}[{i}]", seen, bad, depth + 1)
        return
    if isinstance(obj, dns.immutable.Dict):
        for k, v in obj.items():
            deep_walk(ctx, k, f"{path}.key", seen, bad, depth + 1)
            deep_walk(ctx, v, f"{path}[{k!r}]", seen, bad, depth + 1)
        return
    # objects: walk slots and __dict__
    slots = []
    for cls in type(obj).__mro__:
        s = getattr(cls, "__slots__", ())
        if isinstance(s, str):
            s = (s,)
        slots.extend(s)
    d = getattr(obj, "__dict__", None)
    if d is not None:
        slots.extend(d.keys())
    for s in slots:
        try:
            v = getattr(obj, s)
        except AttributeError:
            continue
        deep_walk(ctx, v, f"{path}.{s}", seen, bad, depth + 1)


def attack(ctx, obj, what, case):
    """try to rebind / delete every attribute and to add a new one; each must raise and change nothing"""
    names = []
    for cls in type(obj).__mro__:
        s = getattr(cls, "__slots__", ())
        if isinstance(s, str):
            s = (s,)
        names.extend(s)
    names.extend(getattr(obj, "__dict__", {}).keys())
    before = {}
    for n in names:
        try:
            before[n] = getattr(obj, n)
        except AttributeError:
            pass
    for n in list(before) + ["brand_new_attribute"]:
        ctx.count("mon.immutability_attack")
        try:
            setattr(obj, n, 12345)
            ctx.violation(f"attribute-rebindable:{what}", f"setattr({what}, {n!r}) succeeded", case)
        except (TypeError, AttributeError):
            pass
        except Exception as e:
            ctx.violation(f"attribute-attack-odd-exception:{what}:" + type(e).__name__, f"setattr {n}: {e!r}", case)
        if n in before:
            try:
                delattr(obj, n)
                ctx.violation(f"attribute-deletable:{what}", f"delattr({what}, {n!r}) succeeded", case)
            except (TypeError, AttributeError):
                pass
            except Exception as e:
                ctx.violation(f"attribute-attack-odd-exception:{what}:" + type(e).__name__, f"delattr {n}: {e!r}", case)
    for n, v in before.items():
        try:
            if getattr(obj, n) is not v:
                ctx.violation(f"attribute-changed-by-failed-attack:{what}", f"{n}", case)
        except AttributeError:
            ctx.violation(f"attribute-changed-by-failed-attack:{what}", f"{n} vanished", case)
        # put things back where an attack went through, so that the checks that follow see the value as generated
        try:
            if getattr(obj, n, attack) is not v:  # (any sentinel that cannot be a field value)
                object.__setattr__(obj, n, v)
        except Exception:
            pass
    try:
        object.__delattr__(obj, "brand_new_attribute")
    except Exception:
        pass


def check_value_immutability(ctx, val):
    ctx.count("evaluations")
    t = val.tname
    case = {"kind": "imm", "type": t}
    try:
        rd = GR.build(val)
    except Exception as e:
        ctx.violation(f"constructor-rejects-wellformed:{t}", repr(e), case)
        return None
    w0 = rd.to_wire() if not val.has_relative() else None
    if w0 is not None and t != "UNKNOWN":
        # the same record held as generic rdata (what to_generic() gives, what a peer without the type's class would hold): same
        # class, type and canonical encoding, hence equal, same hash, one member of a set
        try:
            if rd.to_digestable() == w0:
                g = rd.to_generic()
                ctx.count("mon.generic_twin_equality")
                rs = dns.rdataset.Rdataset(rd.rdclass, rd.rdtype, rd.covers() if hasattr(rd, "covers") else 0)
                rs.add(rd, 300)
                rs.add(g, 300)
                if not (g == rd) or not (rd == g) or (g != rd) or hash(g) != hash(rd) or len(rs) != 1 or not (g <= rd and g >= rd):
                    ctx.violation(f"equality-not-canonical-encoding:generic-twin:{t}", f"== {g == rd}/{rd == g}, != {g != rd}, hash equal {hash(g) == hash(rd)}, set size {len(rs)}", case)
        except dns.exception.DNSException:
            pass
    attack(ctx, rd, t, case)
    bad = []
    ctx.count("mon.deep_walk")
    deep_walk(ctx, rd, t, set(), bad)
    for path, kind in bad:
        ctx.violation(f"mutable-container-in-record:{t}", f"{path} is a {kind}", case)
    # the same value as the other producers make it: the wire parser, the text parser, replace()
    others = []
    if w0 is not None:
        try:
            others.append(("from_wire", dns.rdata.from_wire(rd.rdclass, rd.rdtype, w0, 0, len(w0))))
        except Exception:
            pass  # C02 owns decode failures
        if val.text_ok and t not in GR.META_TYPES:
            try:
                others.append(("from_text", dns.rdata.from_text(rd.rdclass, rd.rdtype, rd.to_text())))
            except Exception:
                pass  # C05 owns text failures
    try:
        others.append(("replace", rd.replace()))
    except Exception:
        # LOC.replace() raises AttributeError on the unchanged tree (constructor parameter names differ from the slots);
        # replace() is not part of this property, only what it returns is: observed
        ctx.count("obs.replace_raised")
    for how, other in others:
        ctx.count("mon.deep_walk")
        ctx.count("mon.deep_walk_other_producers")
        bad = []
        deep_walk(ctx, other, t, set(), bad)
        for path, kind in bad:
            ctx.violation(f"mutable-container-in-record:{t}:{how}", f"{path} is a {kind}", dict(case, producer=how))
        if other != rd or hash(other) != hash(rd):
            ctx.count(f"obs.{how}_result_not_equal_to_original")  # round trips belong to C02 / C05
    # helper objects held in fields (APL items, SVCB params, EDNS options are not @immutable rdata but must not be rebindable either)
    for a in (getattr(rd, s, None) for s in type(rd).__slots__ if isinstance(type(rd).__slots__, (list, tuple))):
        if isinstance(a, tuple):
            for item in a:
                if not isinstance(item, (dns.name.Name, dns.rdata.Rdata, bytes, str, int, float, tuple)) and (hasattr(item, "__slots__") or hasattr(item, "__dict__")):
                    # helper objects held in a field (APL items, EDNS options of an OPT record, ...): part of the record's value
                    attack(ctx, item, t + ".item:" + type(item).__mro__[-2].__name__, case)
        elif isinstance(a, dns.immutable.Dict):
            for k, v in a.items():
                if v is not None:
                    attack(ctx, v, t + ".param", case)
            try:
                a["x"] = 1
                ctx.violation(f"immutable-dict-assignable:{t}", "Dict.__setitem__ succeeded", case)
            except TypeError:
                pass
    if w0 is not None and rd.to_wire() != w0:
        ctx.violation(f"record-changed-by-attacks:{t}", "", case)
    ctx.seen(("imm", t, val.tags))
    return rd


def check_callers_arguments(ctx, val):
    """the record is a value of its own: built from the caller's MUTABLE containers (bytearray for octets, lists for sequences
    and bitmap windows) it either refuses them or copies them -- changing the caller's objects afterwards changes nothing"""
    t = val.tname
    case = {"kind": "callers-args", "type": t}
    mine = []  # every mutable object handed in

    def soften(a, depth=0):
        if isinstance(a, bytes) and depth > 0 or isinstance(a, bytes) and t in ("UNKNOWN", "NULL", "OPENPGPKEY", "DHCID"):
            b = bytearray(a)
            mine.append(b)
            return b
        if isinstance(a, tuple) and a and not isinstance(a[0], str) and all(isinstance(x, (bytes, tuple, int)) for x in a) and not all(isinstance(x, int) for x in a):
            window_entry = any(isinstance(x, int) for x in a)  # (window number, bitmap): the bitmap must be bytes, the pair may be a list
            l = [x if window_entry else soften(x, depth + 1) for x in a]
            mine.append(l)
            return l
        return a

    args = [soften(a) for a in val.args]
    if not mine:
        return
    ctx.count("mon.callers_mutable_arguments")
    try:
        rd = GR.build(GR.Val(val.rdclass, val.rdtype, val.tname, args, val.parts, val.tags))
    except Exception:
        ctx.count("obs.mutable_arguments_refused")
        return
    if val.has_relative():
        return
    try:
        w0, h0 = rd.to_wire(), hash(rd)
    except Exception:
        return
    for m in mine:
        if isinstance(m, bytearray):
            if len(m):
                m[0] ^= 0x5A
            else:
                m.append(1)
        else:
            if m:
                m.pop()
            m.append((0, b"\x01") if t in ("NSEC", "NSEC3", "CSYNC") else b"x")
    try:
        w1, h1 = rd.to_wire(), hash(rd)
    except Exception as e:
        ctx.violation(f"record-follows-the-callers-mutable-argument:{t}", f"after the caller changed its own objects the record cannot be encoded: {e!r}", case)
        return
    if w1 != w0 or h1 != h0:
        ctx.violation(f"record-follows-the-callers-mutable-argument:{t}", f"wire {w0.hex()[:60]} -> {w1.hex()[:60]}", case)
        return
    bad = []
    deep_walk(ctx, rd, t, set(), bad)
    for path, kind in bad:
        ctx.violation(f"mutable-container-in-record:{t}:built-from-mutable-arguments", f"{path} is a {kind}", case)


def check_name_immutability(ctx, labels):
    ctx.count("evaluations")
    n = dns.name.Name(labels)
    case = {"kind": "nameimm", "labels": list(labels)}
    attack(ctx, n, "Name", case)
    if not isinstance(n.labels, tuple) or not all(isinstance(l, bytes) for l in n.labels):
        ctx.violation("mutable-container-in-record:Name", f"labels is {type(n.labels).__name__}", case)
    if n.labels != tuple(labels):
        ctx.violation("record-changed-by-attacks:Name", "", case)


# ------------------------------------------------------------------------------------------ equality / hash / order


def case_variant_val(rng, val):
    memo = {}

    def cv(n):
        if id(n) not in memo:
            memo[id(n)] = GR.NameRef(GN.case_variant(rng, n.labels), n.comp, n.down)
        return memo[id(n)]

    args = []
    for a in val.args:
        if isinstance(a, GR.NameRef):
            args.append(cv(a))
        elif isinstance(a, tuple) and a and isinstance(a[0], GR.NameRef):
            args.append(tuple(cv(x) for x in a))
        else:
            args.append(a)
    parts = [cv(p) if isinstance(p, GR.NameRef) else p for p in val.parts]
    return GR.Val(val.rdclass, val.rdtype, val.tname, args, parts, val.tags)


def check_pair(ctx, rng, va, vb, relation):
    ctx.count("evaluations")
    ctx.count("mon.eq_hash_order")
    t = va.tname
    case = {"kind": "pair", "type": t, "relation": relation}
    try:
        a, b = GR.build(va), GR.build(vb)
        da, db = a.to_digestable(), b.to_digestable()
        same = (a.rdclass == b.rdclass and a.rdtype == b.rdtype and da == db)
        if (a == b) != same or (a != b) == same:
            ctx.violation(f"equality-not-canonical-encoding:{t}", f"{a!r} vs {b!r}: == gives {a == b}, canonical equal {same}", case)
        if a == b and hash(a) != hash(b):
            ctx.violation(f"equal-records-hash-differently:{t}", f"{a!r} vs {b!r}", case)
        if a.rdclass == b.rdclass and a.rdtype == b.rdtype:
            want = (da > db) - (da < db)
            got = (a > b) - (a < b)
            if got != want or (a <= b) != (want <= 0) or (a >= b) != (want >= 0):
                ctx.violation(f"order-not-canonical-octet-order:{t}", f"{a!r} vs {b!r}", case)
        if relation == "casevariant" and t not in ("LP", "CH-A"):
            # reference: only names flagged down-cased may differ in case and stay equal
            ra = GR.ref_wire(va.parts, None, canonical=True)
            rb = GR.ref_wire(vb.parts, None, canonical=True)
            if (ra == rb) != (a == b):
                ctx.violation(f"embedded-name-case-sensitivity-wrong:{t}", f"{a!r} vs {b!r}: lib equal={a == b} reference canonical equal={ra == rb}", case)
        if relation == "copy":
            c = copy.copy(a)
            if not (c == a and hash(c) == hash(a) and c.to_wire() == a.to_wire()):
                ctx.violation(f"copy-not-equal:{t}", f"{a!r}", case)
            try:
                d = copy.deepcopy(a)
                if d != a:
                    ctx.violation(f"deepcopy-not-equal:{t}", f"{a!r}", case)
            except TypeError:
                # deep copies of helper objects with __slots__ (APLItem) are refused loudly; the property does
                # not promise deepcopy/pickle support, so this is an observation, not a violation
                ctx.table("obs_deepcopy_refused", t)
            if a != b:
                ctx.violation(f"rebuilt-value-not-equal:{t}", f"{a!r} vs {b!r}", case)
        ctx.seen(("pair", t, relation, a == b))
    except Exception as e:
        ctx.violation(f"pair-raised:{t}:" + core.exc_sig(e), repr(e), case)


# ------------------------------------------------------------------------------------------ set algebra


class Model:
    """ordered set: python dict preserves first-insertion order of survivors"""

    def __init__(self, items=()):
        self.d = dict.fromkeys(items)

    def copy(self):
        m = Model()
        m.d = dict(self.d)
        return m

    def keys(self):
        return list(self.d)


def gen_items(rng, universe):
    return [rng.choice(universe) for _ in range(rng.randint(0, 6))]


def set_history(ctx, rng, universe, make, tag):
    """make(items) -> library set of plain hashable items.  Runs a random history of operations on 3 sets
    against the model; checks after every step."""
    sets = [make(gen_items(rng, universe)) for _ in range(3)]
    models = []
    for s in sets:
        models.append(Model(list(s)))
    trace = []
    nsteps = rng.randint(4, 14)
    for step in range(nsteps):
        ctx.count("mon.set_step")
        i = rng.randrange(3)
        j = rng.randrange(3) if rng.random() < 0.8 else i
        s, m, o, om = sets[i], models[i], sets[j], models[j]
        op = rng.choice(("add", "remove", "discard", "pop", "union_update", "intersection_update", "difference_update",
                         "symmetric_difference_update", "or", "and", "add_op", "sub", "xor", "ior", "iand", "iadd", "isub", "ixor",
                         "update", "clear", "copy", "delitem", "getitem", "preds"))
        item = rng.choice(universe)
        trace.append((op, i, j, repr(item)[:30]))
        try:
            if op == "add":
                s.add(item)
                m.d.setdefault(item)
            elif op == "remove":
                try:
                    s.remove(item)
                    if item not in m.d:
                        ctx.violation(f"set-remove-missing-did-not-raise:{tag}", str(trace), None)
                    m.d.pop(item, None)
                except ValueError:
                    if item in m.d:
                        ctx.violation(f"set-remove-present-raised:{tag}", str(trace), None)
            elif op == "discard":
                s.discard(item)
                m.d.pop(item, None)
            elif op == "pop":
                if m.d:
                    got = s.pop()
                    if got not in m.d:
                        ctx.violation(f"set-pop-returned-nonmember:{tag}", str(trace), None)
                    m.d.pop(got, None)
                else:
                    try:
                        s.pop()
                        ctx.violation(f"set-pop-empty-did-not-raise:{tag}", str(trace), None)
                    except KeyError:
                        pass
            elif op in ("union_update", "ior", "iadd"):
                if op == "union_update":
                    s.union_update(o)
                elif op == "ior":
                    s |= o
                else:
                    s += o
                if s is not sets[i]:
                    ctx.violation(f"set-inplace-operator-rebinds:{tag}:{op}", str(trace), None)
                    return
                for k in om.keys():
                    m.d.setdefault(k)
            elif op in ("intersection_update", "iand"):
                if op == "iand":
                    s &= o
                else:
                    s.intersection_update(o)
                if s is not sets[i]:
                    ctx.violation(f"set-inplace-operator-rebinds:{tag}:{op}", str(trace), None)
                    return
                m.d = {k: None for k in m.d if k in om.d}
            elif op in ("difference_update", "isub"):
                if op == "isub":
                    s -= o
                else:
                    s.difference_update(o)
                if s is not sets[i]:
                    ctx.violation(f"set-inplace-operator-rebinds:{tag}:{op}", str(trace), None)
                    return
                m.d = {k: None for k in m.d if k not in om.d} if om is not m else {}
            elif op in ("symmetric_difference_update", "ixor"):
                if op == "ixor":
                    s ^= o
                else:
                    s.symmetric_difference_update(o)
                if s is not sets[i]:
                    ctx.violation(f"set-inplace-operator-rebinds:{tag}:{op}", str(trace), None)
                    return
                if om is m:
                    m.d = {}
                else:
                    nd = {k: None for k in m.d if k not in om.d}
                    for k in om.d:
                        if k not in m.d:
                            nd[k] = None
                    m.d = nd
            elif op in ("or", "add_op", "and", "sub", "xor"):
                r = {"or": lambda: s | o, "add_op": lambda: s + o, "and": lambda: s & o, "sub": lambda: s - o, "xor": lambda: s ^ o}[op]()
                if op in ("or", "add_op"):
                    want = list(dict.fromkeys(m.keys() + om.keys()))
                elif op == "and":
                    want = [k for k in m.d if k in om.d]
                elif op == "sub":
                    want = [k for k in m.d if k not in om.d]
                else:
                    want = [k for k in m.d if k not in om.d] + [k for k in om.d if k not in m.d]
                if list(r) != want:
                    ctx.violation(f"set-binary-op-wrong:{tag}:{op}", f"{trace} got {list(r)!r} want {want!r}", None)
                if type(r) is not type(s) and not isinstance(s, dns.rdataset.ImmutableRdataset):
                    ctx.violation(f"set-binary-op-wrong-type:{tag}:{op}", f"{type(r)}", None)
                # the copying form must not touch its operands (checked below by the per-step comparison)
                k = rng.randrange(3)
                sets[k], models[k] = r, Model(want)
            elif op == "update":
                its = gen_items(rng, universe)
                s.update(its)
                for k in its:
                    m.d.setdefault(k)
            elif op == "clear":
                s.clear()
                m.d = {}
            elif op == "copy":
                k = rng.randrange(3)
                c = rng.choice((lambda: s.copy(), lambda: copy.copy(s)))()
                if c is s:
                    ctx.violation(f"set-copy-is-alias:{tag}", str(trace), None)
                sets[k], models[k] = c, m.copy()
            elif op == "delitem":
                if m.d:
                    idx = rng.randrange(len(m.d))
                    del s[idx]
                    m.d.pop(m.keys()[idx])
            elif op == "getitem":
                if m.d:
                    idx = rng.randrange(len(m.d))
                    if s[idx] != m.keys()[idx]:
                        ctx.violation(f"set-getitem-wrong:{tag}", str(trace), None)
                    a, b = sorted((rng.randrange(len(m.d) + 1), rng.randrange(len(m.d) + 1)))
                    if list(s[a:b]) != m.keys()[a:b]:
                        ctx.violation(f"set-slice-wrong:{tag}", str(trace), None)
            elif op == "preds":
                if s.issubset(o) != all(k in om.d for k in m.d) or s.issuperset(o) != all(k in m.d for k in om.d) or \
                        s.isdisjoint(o) != (not any(k in om.d for k in m.d)):
                    ctx.violation(f"set-predicate-wrong:{tag}", str(trace), None)
                import random as _r
                sh = m.keys()
                _r.Random(len(sh)).shuffle(sh)
                s2 = make(sh)
                if not (s2 == s) or (s2 != s):
                    ctx.violation(f"set-equality-order-sensitive:{tag}", str(trace), None)
        except Exception as e:
            ctx.violation(f"set-op-raised:{tag}:{op}:" + core.exc_sig(e), f"{trace}: {e!r}", None)
            return
        # per-step: every set equals its model (contents, order, length, membership)
        for k in range(3):
            if list(sets[k]) != models[k].keys() or len(sets[k]) != len(models[k].d):
                ctx.violation(f"set-differs-from-model:{tag}:{op}", f"{trace}: set {k} = {list(sets[k])!r} model {models[k].keys()!r}", None)
                return
            for u in universe[:6]:
                if (u in sets[k]) != (u in models[k].d):
                    ctx.violation(f"set-membership-wrong:{tag}", str(trace), None)
                    return
        ctx.seen(("sethist", tag, op, i == j))
    ctx.count("evaluations")


# ------------------------------------------------------------------------------------------ rdataset histories


def rd_key(rd):
    return (int(rd.rdclass), int(rd.rdtype), rd.to_digestable(dns.name.root))


def rdataset_history(ctx, rng, t, pool, foreign, owner):
    """pool: library rdatas of one (class,type); foreign: rdatas of other types.  Runs a history on
    Rdataset / RRset objects against a (ordered keys, ttl) model."""
    rdclass, rdtype = pool[0].rdclass, pool[0].rdtype
    singleton = int(rdtype) in SINGLETONS
    sig = rdtype in (dns.rdatatype.RRSIG, dns.rdatatype.SIG)
    use_rrset = rng.random() < 0.4

    def new():
        if use_rrset:
            return dns.rrset.RRset(owner, rdclass, rdtype)
        return dns.rdataset.Rdataset(rdclass, rdtype)

    rs = [new(), new()]
    ms = [{"k": {}, "ttl": 0, "covers": 0}, {"k": {}, "ttl": 0, "covers": 0}]
    trace = []

    def m_update_ttl(m, ttl):
        if len(m["k"]) == 0:
            m["ttl"] = ttl
        elif ttl < m["ttl"]:
            m["ttl"] = ttl

    def m_add(m, rd):
        if sig:
            c = int(rd.covers())
            if len(m["k"]) == 0 and m["covers"] == 0:
                m["covers"] = c
            elif m["covers"] != c:
                return "covers"
        if singleton and m["k"]:
            m["k"] = {}
        m["k"].setdefault(rd_key(rd), rd)
        return None

    for step in range(rng.randint(3, 12)):
        ctx.count("mon.rdataset_step")
        i = rng.randrange(2)
        j = 1 - i if rng.random() < 0.8 else i
        r, m, o, om = rs[i], ms[i], rs[j], ms[j]
        op = rng.choice(("add", "add", "add_ttl", "add_foreign", "union_update", "intersection_update", "update", "difference_update", "remove", "copy", "eq",
                         "symmetric_difference_update", "ixor", "copying", "foreign_operand", "empty_then_union"))
        trace.append((op, i, j))
        try:
            if op in ("add", "add_ttl"):
                rd = rng.choice(pool)
                ttl = rng.choice((0, 1, 300, 3600, 2**31 - 1)) if op == "add_ttl" else None
                before = (list(map(rd_key, r)), r.ttl)
                try:
                    r.add(rd, ttl)
                    err = None
                except dns.rdataset.DifferingCovers:
                    err = "covers"
                if ttl is not None and (not sig or True):
                    # the library merges the TTL before the covers check; model the documented order:
                    pass
                if sig and m["k"] and m["covers"] != int(rd.covers()):
                    want_err = "covers"
                elif sig and not m["k"] and m["covers"] not in (0, int(rd.covers())):
                    want_err = "covers"
                else:
                    want_err = None
                if err != want_err:
                    ctx.violation(f"rdataset-covers-refusal-wrong:{t}", f"{trace}", None)
                    return
                if err is None:
                    if ttl is not None:
                        m_update_ttl(m, ttl)
                    m_add(m, rd)
                else:
                    if list(map(rd_key, r)) != before[0]:
                        ctx.violation(f"rdataset-changed-by-refused-add:{t}", f"{trace}", None)
                        return
                    m["ttl"] = r.ttl  # TTL after a refused add is unspecified; resynchronise
            elif op == "add_foreign":
                rd = rng.choice(foreign)
                before = list(map(rd_key, r))
                try:
                    r.add(rd)
                    ctx.violation(f"rdataset-accepts-foreign-type:{t}", f"{trace} added {rd!r}", None)
                    return
                except dns.rdataset.IncompatibleTypes:
                    pass
                if list(map(rd_key, r)) != before:
                    ctx.violation(f"rdataset-changed-by-refused-add:{t}", f"{trace}", None)
                    return
            elif op in ("union_update", "update"):
                if op == "update":
                    r.update(o)
                elif rng.random() < 0.3:
                    if rng.random() < 0.5:
                        r |= o
                    else:
                        r += o
                else:
                    r.union_update(o)
                if r is not rs[i]:
                    ctx.violation(f"rdataset-inplace-operator-rebinds:{t}", f"{trace}", None)
                    return
                m_update_ttl(m, om["ttl"])
                if o is not r:
                    for k, rd in list(om["k"].items()):
                        if op == "update" or True:
                            if singleton and m["k"] and k not in m["k"]:
                                m["k"] = {}
                            m["k"].setdefault(k, rd)
                    if sig and om["k"] and not (m["covers"]):
                        m["covers"] = om["covers"]
            elif op == "intersection_update":
                if rng.random() < 0.3:
                    r &= o
                else:
                    r.intersection_update(o)
                if r is not rs[i]:
                    ctx.violation(f"rdataset-inplace-operator-rebinds:{t}", f"{trace}", None)
                    return
                m_update_ttl(m, om["ttl"])
                if o is not r:
                    m["k"] = {k: v for k, v in m["k"].items() if k in om["k"]}
            elif op == "difference_update":
                if rng.random() < 0.3:
                    r -= o
                else:
                    r.difference_update(o)
                if r is not rs[i]:
                    ctx.violation(f"rdataset-inplace-operator-rebinds:{t}", f"{trace}", None)
                    return
                m["k"] = {} if o is r else {k: v for k, v in m["k"].items() if k not in om["k"]}
            elif op == "empty_then_union":
                # a set that was emptied keeps its old TTL attribute; what is merged into an EMPTY set brings its own TTL
                if o is not r and om["k"]:
                    for rd in list(r):
                        r.remove(rd)
                    m["k"] = {}
                    how = rng.choice(("union_update", "update", "|=", "+=", "union"))
                    if how in ("union_update", "update"):
                        getattr(r, how)(o)
                    elif how == "|=":
                        r |= o
                    elif how == "+=":
                        r += o
                    else:
                        res = r.union(o)
                        if res.ttl != om["ttl"]:
                            ctx.violation(f"rdataset-ttl-differs-from-model:{t}:union-into-emptied-set", f"{trace}: ttl {res.ttl} model {om['ttl']}", None)
                            return
                        r.update(o)
                    m_update_ttl(m, om["ttl"])
                    for k, rd in list(om["k"].items()):
                        if singleton and m["k"] and k not in m["k"]:
                            m["k"] = {}
                        m["k"].setdefault(k, rd)
                    if sig and om["k"] and not (m["covers"]):
                        m["covers"] = om["covers"]
            elif op in ("symmetric_difference_update", "ixor"):
                if op == "ixor":
                    r ^= o
                    if r is not rs[i]:
                        ctx.violation(f"rdataset-inplace-operator-rebinds:{t}", f"{trace}", None)
                        return
                else:
                    r.symmetric_difference_update(o)
                if o is r:
                    m["k"] = {}
                else:
                    # elements of exactly one side; what is added goes through the same door as add(): TTL minimum,
                    # singleton replacement, covered-type adoption
                    overlap = [k for k in m["k"] if k in om["k"]]
                    m_update_ttl(m, om["ttl"])
                    for k, rd in list(om["k"].items()):
                        if singleton and m["k"] and k not in m["k"]:
                            m["k"] = {}
                        m["k"].setdefault(k, rd)
                    if sig and om["k"] and not (m["covers"]):
                        m["covers"] = om["covers"]
                    for k in overlap:
                        m["k"].pop(k, None)
            elif op == "copying":
                # copying forms: operands untouched, result is what the in-place form gives on a copy
                which = rng.choice(("|", "&", "-", "^", "+"))
                trace[-1] = (op + which, i, j)
                snap = [(list(map(rd_key, x)), x.ttl) for x in rs]
                c = {"|": lambda: r | o, "&": lambda: r & o, "-": lambda: r - o, "^": lambda: r ^ o, "+": lambda: r + o}[which]()
                if [(list(map(rd_key, x)), x.ttl) for x in rs] != snap:
                    ctx.violation(f"rdataset-copying-operator-changed-operand:{t}:{which}", f"{trace}", None)
                    return
                c2 = r.copy()
                {"|": c2.union_update, "&": c2.intersection_update, "-": c2.difference_update, "^": c2.symmetric_difference_update, "+": c2.union_update}[which](o if o is not r else c2)
                if c is r or c is o or type(c) is not type(r) or list(map(rd_key, c)) != list(map(rd_key, c2)) or c.ttl != c2.ttl or c.covers != c2.covers:
                    ctx.violation(f"rdataset-copying-operator-differs-from-inplace-on-copy:{t}:{which}", f"{trace}: {list(c)} ttl {c.ttl} vs {list(c2)} ttl {c2.ttl}", None)
                    return
                ks, ko = set(m["k"]), set(om["k"])
                want = {"|": ks | ko, "&": ks & ko, "-": ks - ko, "^": ks ^ ko, "+": ks | ko}[which]
                if not singleton and set(map(rd_key, c)) != want:
                    ctx.violation(f"rdataset-copying-operator-not-set-theory:{t}:{which}", f"{trace}", None)
                    return
            elif op == "foreign_operand":
                # a set of another type as operand: nothing of it may end up in this set
                fo = dns.rdataset.Rdataset(foreign[0].rdclass, foreign[0].rdtype)
                for x in foreign[: rng.randint(1, 3)]:
                    if (x.rdclass, x.rdtype) == (fo.rdclass, fo.rdtype) and (not fo or x.covers() == fo.covers):
                        fo.add(x, rng.choice((0, 5, 300)))
                which = rng.choice(("union_update", "update", "symmetric_difference_update", "|", "^", "+"))
                trace[-1] = (op + ":" + which, i, j)
                before = list(map(rd_key, r))
                try:
                    if which in ("|", "^", "+"):
                        res = {"|": lambda: r | fo, "^": lambda: r ^ fo, "+": lambda: r + fo}[which]()
                    else:
                        getattr(r, which)(fo)
                        res = r
                    refused = False
                except dns.rdataset.IncompatibleTypes:
                    refused, res = True, r
                ctx.count("mon.foreign_operand_refused" if refused else "obs.foreign_operand_not_refused")
                if any((x.rdclass, x.rdtype) != (rdclass, rdtype) for x in res) or any((x.rdclass, x.rdtype) != (rdclass, rdtype) for x in r):
                    ctx.violation(f"rdataset-holds-record-of-other-type-after:{which}:{t}", f"{trace}", None)
                    return
                if not refused:
                    ctx.violation(f"rdataset-operand-of-other-type-not-refused:{which}:{t}", f"{trace}", None)
                    return
                if list(map(rd_key, r)) != before:
                    ctx.violation(f"rdataset-changed-by-refused-operand:{which}:{t}", f"{trace}", None)
                    return
                m["ttl"] = r.ttl  # the TTL after a refused operation is unspecified; resynchronise
            elif op == "remove":
                if m["k"]:
                    k = rng.choice(list(m["k"]))
                    r.remove(m["k"][k])
                    del m["k"][k]
            elif op == "copy":
                c = r.copy()
                if c is r or c.ttl != r.ttl or c.rdtype != r.rdtype or c.covers != r.covers:
                    ctx.violation(f"rdataset-copy-wrong:{t}", f"{trace}", None)
                rs[j], ms[j] = c, {"k": dict(m["k"]), "ttl": m["ttl"], "covers": m["covers"]}
            elif op == "eq":
                same = set(m["k"]) == set(om["k"]) and (not sig or m["covers"] == om["covers"] or True)
                if sig and r.covers != o.covers:
                    same = False
                if (r == o) != same:
                    ctx.violation(f"rdataset-equality-wrong:{t}", f"{trace}: lib {r == o} model {same}", None)
                    return
        except Exception as e:
            if sig and isinstance(e, dns.rdataset.DifferingCovers):
                # union of signature sets with different covered types: refused; resynchronise the model
                for k in range(2):
                    ms[k]["k"] = {rd_key(x): x for x in rs[k]}
                    ms[k]["ttl"] = rs[k].ttl
                    ms[k]["covers"] = int(rs[k].covers)
                continue
            ctx.violation(f"rdataset-op-raised:{t}:{op}:" + core.exc_sig(e), f"{trace}: {e!r}", None)
            return
        for k in range(2):
            got = list(map(rd_key, rs[k]))
            if got != list(ms[k]["k"]):
                ctx.violation(f"rdataset-differs-from-model:{t}:{op}", f"{trace}: set {k} has {len(got)} items, model {len(ms[k]['k'])}; order/content differ", None)
                return
            if rs[k].ttl != ms[k]["ttl"]:
                ctx.violation(f"rdataset-ttl-differs-from-model:{t}:{op}", f"{trace}: set {k} ttl {rs[k].ttl} model {ms[k]['ttl']}", None)
                return
            if singleton and len(rs[k]) > 1:
                ctx.violation(f"singleton-type-holds-several:{t}", f"{trace}", None)
                return
        ctx.seen(("rdhist", t, op, use_rrset))
    ctx.count("evaluations")
    # ImmutableRdataset: every mutator raises and changes nothing; copying ops give equal results
    src = rs[0]
    if len(src) == 0:
        return
    im = dns.rdataset.ImmutableRdataset(src)
    before = (list(map(rd_key, im)), im.ttl)
    other = rs[1]
    rd = pool[0]
    muts = [
        ("update_ttl", lambda: im.update_ttl(1)), ("add", lambda: im.add(rd)), ("union_update", lambda: im.union_update(other)),
        ("intersection_update", lambda: im.intersection_update(other)), ("update", lambda: im.update(other)), ("delitem", lambda: im.__delitem__(0)),
        ("clear", lambda: im.clear()), ("remove", lambda: im.remove(next(iter(im)))), ("discard", lambda: im.discard(next(iter(im)))),
        ("pop", lambda: im.pop()), ("difference_update", lambda: im.difference_update(src)),
        ("symmetric_difference_update", lambda: im.symmetric_difference_update(src)),
    ]
    for name, fn in muts:
        ctx.count("mon.immutable_rdataset_mutator")
        try:
            fn()
            raised = False
        except Exception:
            raised = True
        now = (list(map(rd_key, im)), im.ttl)
        if now != before:
            ctx.violation(f"immutable-rdataset-mutated:{name}", f"type {t}", None)
            return
        if not raised:
            ctx.violation(f"immutable-rdataset-mutator-did-not-raise:{name}", f"type {t}", None)
    # the frozen set is a value of its own: what happens to the set it was made from afterwards does not show through
    ctx.count("mon.immutable_rdataset_source_mutated")
    scratch = src.copy()
    im2 = dns.rdataset.ImmutableRdataset(scratch)
    before2 = (list(map(rd_key, im2)), im2.ttl)
    how = rng.choice(("clear", "remove", "add", "update_ttl", "difference_update"))
    try:
        if how == "clear":
            scratch.clear()
        elif how == "remove":
            scratch.remove(next(iter(scratch)))
        elif how == "add":
            for extra in pool:
                scratch.add(extra)
        elif how == "update_ttl":
            scratch.update_ttl(max(0, scratch.ttl - 1))
        else:
            scratch.difference_update(src)
    except Exception:
        pass
    if (list(map(rd_key, im2)), im2.ttl) != before2:
        ctx.violation(f"immutable-rdataset-follows-its-source:{how}", f"type {t}: {before2[0]} ttl {before2[1]} -> {list(map(rd_key, im2))} ttl {im2.ttl}", None)
        return
    for name, fn in (("ior", lambda x: x.__ior__(other)), ("iand", lambda x: x.__iand__(other)), ("iadd", lambda x: x.__iadd__(other)), ("isub", lambda x: x.__isub__(other)), ("ixor", lambda x: x.__ixor__(src))):
        ctx.count("mon.immutable_rdataset_mutator")
        try:
            fn(im)
        except Exception:
            pass
        if (list(map(rd_key, im)), im.ttl) != before:
            ctx.violation(f"immutable-rdataset-mutated:{name}", f"type {t}", None)
            return
    try:
        if im != src or not (im == src) or list(map(rd_key, im.union(other))) != list(map(rd_key, src.union(other))):
            ctx.violation("immutable-rdataset-copying-op-differs", f"type {t}", None)
    except dns.rdataset.DifferingCovers:
        pass


def run(spec, ctx):
    rng = ctx.rng
    foreign_vals = [GR.build(GR.gen(rng, tt, None, False)) for tt in ("A", "TXT", "MX", "AAAA")]
    owner = dns.name.from_text("owner.example.")
    for t in spec["types"]:
        pool_vals = []
        for i in range(spec["n_val"]):
            if ctx.expired(0.3):
                break
            val = GR.gen(rng, t, None, False)
            rd = check_value_immutability(ctx, val)
            check_callers_arguments(ctx, val)
            if rd is not None:
                pool_vals.append(val)
            if i == 0:
                ctx.sample({"immutability_attack_on": t, "slots": [s for c in type(rd).__mro__ for s in getattr(c, "__slots__", ())] if rd else None})
        for i in range(spec["n_pairs"]):
            if ctx.expired(0.55) or not pool_vals:
                break
            va = rng.choice(pool_vals)
            r = rng.random()
            if r < 0.35:
                check_pair(ctx, rng, va, case_variant_val(rng, va), "casevariant")
            elif r < 0.5:
                check_pair(ctx, rng, va, va, "copy")
            else:
                check_pair(ctx, rng, va, rng.choice(pool_vals), "independent")
        # rdataset histories over this type
        if t in ("OPT",):
            continue
        small = []
        for v in pool_vals[:8]:
            try:
                small.append(GR.build(v))
            except Exception:
                pass
        if t == "UNKNOWN":
            small = [x for x in small if x.rdtype == small[0].rdtype and x.rdclass == small[0].rdclass]
        small = [x for x in small if x.rdclass == small[0].rdclass]
        foreign = [x for x in foreign_vals if x.rdtype != small[0].rdtype] if small else []
        for i in range(spec["n_rdhist"]):
            if ctx.expired(0.85) or not small:
                break
            rdataset_history(ctx, rng, t, small, foreign, owner)
    # names
    for i in range(200):
        check_name_immutability(ctx, GN.name(rng))
    # plain Set over ints and over names
    uni_int = list(range(8))
    uni_names = [dns.name.Name(GN.name(rng, absolute=True, shape="short")) for _ in range(5)]
    uni_names += [dns.name.Name(GN.case_variant(rng, n.labels)) for n in uni_names[:3]]
    for i in range(spec["n_hist"]):
        if ctx.expired(1.0):
            break
        set_history(ctx, rng, uni_int, lambda items: dns.set.Set(items), "Set[int]")
        if i % 3 == 0:
            # names: case variants are equal, the first spelling stays
            set_history(ctx, rng, uni_names, lambda items: dns.set.Set(items), "Set[Name]")
        if i < 1:
            ctx.sample({"set_history_universe": uni_int})


def replay(case, ctx):
    ctx.notes.append("histories are regenerated from the seed; rerun the tier with VERIF_SEED")
