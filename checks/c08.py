"""C08 — rendered messages respect the size limit; truncation and padding are exact."""

import copy

import dns.exception
import dns.flags
import dns.edns
import dns.message
import dns.renderer
import dns.name
import dns.opcode
import dns.tsig

from vlib import core
from vlib.gen import messages as GM
from vlib.ref import names as RN
from vlib.ref import wirewalk as WW
from checks.c03 import RendererSpy, check_compression, walker_view, merge_view

PROP = "C08"
LEVEL = "fault_enumeration"
RULE = (
    "for generated messages (as C03, medium/large, with and without EDNS options, TSIG with key names that do / do not "
    "compress against message names, padding blocks 0/16/128/468) the size limit is enumerated: every limit from 512 to full "
    "size + 8 for a fraction of the messages, otherwise every limit within +-3 of each record boundary plus random ones; both "
    "prefer_truncation settings. Distinct by (TSIG, pad, prefer_truncation, outcome, how many RRsets survived mod 8, limit class)."
)
RULE += " " + (
    "Also: OPT records larger than the limit; direct-Renderer drill with reserve/release rounds; more than 64 KiB of records under limits >= 65536; first renderings with the TSIG placeholder. Responses to an advertised payload size; add_tsig on the direct renderer."
)
ASSUMPTIONS = [
    "reference wire walker and name decoder; RDATA decoded with dns.rdata.from_wire (C02)",
    "maximality of the kept prefix is not demanded; TooBig under prefer_truncation is legitimate only when header+question-less OPT/padding/TSIG alone exceed the limit",
]
REQUIRED = ["mon.tsig_with_other_data", "mon.response_to_advertised_payload", "mon.direct_renderer_add_tsig", "mon.beyond_64k", "mon.direct_renderer_reservation_rounds", "mon.first_rendering_with_tsig_placeholder", "mon.bulky_opt_record", "mon.direct_renderer", "mon.padding_option_already_present", "mon.render_under_limit", "mon.prefix_check", "mon.tc_rule", "mon.padding_multiple", "mon.toobig_legitimacy", "mon.truncated_outcomes"]
BUDGET = {"quick": 32.0, "thorough": 480.0}


def shards(tier, seed):
    mult = 1 if tier == "quick" else 10
    return [{"n": 10 * mult, "exh_every": 5} for _ in range(16)]


def want_rr_list(m, fold):
    """flattened RR list of the message in rendering order + the set of RRset boundaries (RR counts at which a cut is allowed)"""
    rrs, bounds = [], {0}
    o = m.origin
    f = (lambda b: RN.fold(b)) if fold else (lambda b: b)
    for si, sec in enumerate(m.sections):
        for rr in sec:
            owner = rr.name if rr.name.is_absolute() else rr.name.derelativize(o)
            ok = tuple(RN.fold(l) for l in owner.labels)
            wclass = int(rr.deleting) if getattr(rr, "deleting", None) is not None else int(rr.rdclass)
            if si == 0:
                rrs.append((0, ok, wclass, int(rr.rdtype), 0, None))
            elif len(rr) == 0:
                rrs.append((si, ok, wclass, int(rr.rdtype), 0, None))
            else:
                for rd in rr:
                    rrs.append((si, ok, wclass, int(rr.rdtype), int(rr.ttl), f(rd.to_wire(origin=o))))
            bounds.add(len(rrs))
    return rrs, bounds


def got_rr_list(w, walk, update, fold):
    import dns.rdata

    f = (lambda b: RN.fold(b)) if fold else (lambda b: b)
    rrs = [(0, tuple(RN.fold(l) for l in labels), c, t, 0, None) for labels, t, c in walk["questions"]]
    zone_class = walk["questions"][0][2] if (update and walk["questions"]) else None
    for si, recs in enumerate(walk["records"]):
        for labels, t, c, ttl, off, rdlen in recs:
            if t in (41, 250):
                continue
            rdclass = zone_class if (update and c in (255, 254)) else c
            if rdlen == 0 and update and (c == 255 or (c == 254 and si == 0)):
                rrs.append((si + 1, tuple(RN.fold(l) for l in labels), c, t, 0, None))
            else:
                rd = dns.rdata.from_wire(rdclass, t, w, off, rdlen)
                rrs.append((si + 1, tuple(RN.fold(l) for l in labels), c, t, ttl, f(rd.to_wire())))
    return rrs


def effective_limit(m, L):
    if L == 0:
        L = m.request_payload if m.request_payload != 0 else 65535
    return min(max(L, 512), 65535)


def render(m, L, prefer):
    return m.to_wire(max_size=L, prefer_truncation=prefer, want_shuffle=False)


def direct_renderer_drill(ctx, rng, m, L):
    """dns.renderer.Renderer used directly, as its documentation shows, with a size limit: every record set is offered through
    add_rrset or the (name, rdataset) spelling add_rdataset; one that raises TooBig is skipped and the next is offered.  What
    comes out must be within the limit, walkable, and its header counts must equal the records that are really there."""
    ctx.count("evaluations")
    ctx.count("mon.direct_renderer")
    case = {"kind": "direct-renderer", "L": L}
    r = dns.renderer.Renderer(id=m.id, flags=int(m.flags), max_size=L, origin=m.origin)
    kept = [0, 0, 0, 0]
    refused = 0
    # space set aside and given back, once per section and sometimes twice over: reserve()/release_reserved() as the class
    # documents them.  Whatever the rounds, the limit of the renderer is the one it was created with.
    reserving = rng.random() < 0.5 and L >= 64

    def round_of_reservation():
        if not reserving:
            return
        r.reserve(rng.choice((0, 1, 11, min(40, r.max_size))))
        if rng.random() < 0.5:
            r.reserve(rng.choice((0, 7, min(20, r.max_size))))
        r.release_reserved()
        if rng.random() < 0.3:
            r.release_reserved()  # giving back twice gives back nothing more

    try:
        round_of_reservation()
        for q in m.question:
            try:
                r.add_question(q.name, q.rdtype, q.rdclass)
                kept[0] += 1
            except dns.exception.TooBig:
                refused += 1
        for si, sec in ((1, m.answer), (2, m.authority), (3, m.additional)):
            round_of_reservation()
            for rr in sec:
                if getattr(rr, "deleting", None) is not None or len(rr) == 0:
                    continue
                try:
                    if rng.random() < 0.5:
                        r.add_rrset(si, rr, want_shuffle=False)
                    else:
                        r.add_rdataset(si, rr.name, rr.to_rdataset(), want_shuffle=False)
                    kept[si] += len(rr)
                except dns.exception.TooBig:
                    refused += 1
        signed = False
        if rng.random() < 0.4:
            # sign what is there with add_tsig, as the class documents: it fits within the limit or it is the too-big error
            r.write_header()
            try:
                r.add_tsig(dns.name.from_text("drill-key.example."), b"0123456789abcdef", 300, m.id, 0, b"", b"", rng.choice((dns.tsig.HMAC_SHA256, dns.tsig.HMAC_SHA512, dns.tsig.HMAC_MD5)))
                signed = True
                kept[3] += 1
            except dns.exception.TooBig:
                refused += 1
        r.write_header()
        w = r.get_wire()
        if signed:
            ctx.count("mon.direct_renderer_add_tsig")
    except Exception as e:
        ctx.violation("direct-renderer-raised:" + core.exc_sig(e), repr(e), case)
        return
    ctx.seen(("direct", min(refused, 3), L < 600, reserving))
    if reserving:
        ctx.count("mon.direct_renderer_reservation_rounds")
        if r.max_size != L or r.reserved != 0:
            ctx.violation("direct-renderer-limit-changed-by-reserve-release-rounds", f"created with max_size {L}; after the rounds max_size {r.max_size}, reserved {r.reserved}", case)
    if len(w) > L:
        ctx.violation("direct-renderer-exceeds-limit", f"{len(w)} > {L}", case)
    try:
        walk = WW.walk(w)
    except WW.WalkError as e:
        ctx.violation("direct-renderer-output-not-walkable", f"L={L} refused={refused}: {e}", dict(case, wire=w))
        return
    present = (len(walk["questions"]),) + tuple(len(x) for x in walk["records"])
    if tuple(walk["counts"]) != present or walk["end"] != len(w) or tuple(kept) != present:
        ctx.violation("direct-renderer-header-counts-differ-from-records-present", f"L={L} refused={refused}: header {walk['counts']} records kept {kept} walker end {walk['end']} len {len(w)}", dict(case, wire=w))


def beyond_64k_drill(ctx, rng):
    """more than 64 KiB of records and a caller-supplied limit at or above 65536: a DNS message is at most 65535 octets,
    padded or not, signed or not, whatever limit was asked for"""
    ctx.count("evaluations")
    ctx.count("mon.beyond_64k")
    q = dns.message.make_query("big.example.", "TXT")
    m = dns.message.make_response(q)
    n = rng.choice((330, 400))
    size = rng.choice((199, 200, 201, 202, 203))
    for i in range(n):
        m.find_rrset(m.answer, dns.name.from_text(f"r{i}.big.example."), 1, 16, create=True).add(dns.rdata.from_text("IN", "TXT", '"' + "x" * size + '"'), 60)
    pad = rng.choice((0, 128, 128, 468, 16))
    if pad:
        m.use_edns(0, 0, 1232, pad=pad)
    key = None
    if rng.random() < 0.4:
        key = dns.tsig.Key("k.example.", b"0123456789abcdef")
        m.use_tsig(key)
    for L in (65536, 70000, rng.choice((65537, 65535 + pad if pad else 66000, 100000))):
        for prefer in (True, False):
            case = {"kind": "beyond-64k", "L": L, "prefer": prefer, "pad": pad, "tsig": key is not None, "records": n, "string": size}
            try:
                w = m.to_wire(max_size=L, prefer_truncation=prefer, want_shuffle=False)
            except dns.exception.TooBig:
                ctx.seen(("beyond-64k", "toobig", prefer, bool(pad)))
                continue
            except Exception as e:
                ctx.violation("render-foreign:" + core.exc_sig(e), f"L={L} prefer={prefer}: {e!r}", case)
                return
            ctx.seen(("beyond-64k", "ok", prefer, bool(pad), len(w) > 65000))
            if len(w) > 65535:
                ctx.violation(f"rendered-message-exceeds-65535-octets:{'pad' if pad else 'nopad'}", f"len {len(w)} with max_size={L}", case)
                return
            try:
                m.to_wire(max_size=L, prefer_truncation=prefer, want_shuffle=False, prepend_length=True)
            except dns.exception.TooBig:
                pass
            except Exception as e:
                ctx.violation("render-foreign:prepend_length:" + core.exc_sig(e), f"L={L}: {e!r}", case)
                return


def advertised_payload_drill(ctx, rng):
    """make_response(query): rendered without an explicit limit, the response respects the payload size the CLIENT advertised
    (never less than 512), not the one this side advertises"""
    ctx.count("evaluations")
    ctx.count("mon.response_to_advertised_payload")
    client = rng.choice((512, 600, 1232, 1400, 4096))
    ours = rng.choice((1232, 4096, 8192))
    q = dns.message.make_query("client.example.", "TXT", use_edns=0, payload=client)
    q = dns.message.from_wire(q.to_wire())
    pad = rng.choice((0, 0, 128))
    try:
        r = dns.message.make_response(q, our_payload=ours, pad=pad)
    except TypeError:
        r = dns.message.make_response(q, our_payload=ours)
    n = rng.choice((3, 8, 30, 80))
    for i in range(n):
        r.find_rrset(r.answer, dns.name.from_text(f"r{i}.client.example."), 1, 16, create=True).add(dns.rdata.from_text("IN", "TXT", '"' + "y" * 90 + '"'), 60)
    case = {"kind": "advertised-payload", "client_payload": client, "our_payload": ours, "records": n, "pad": pad}
    for prefer in (True, False):
        try:
            w = r.to_wire(prefer_truncation=prefer, want_shuffle=False)
        except dns.exception.TooBig:
            ctx.seen(("advertised", "toobig", prefer))
            continue
        except Exception as e:
            ctx.violation("render-foreign:" + core.exc_sig(e), repr(e), case)
            return
        ctx.seen(("advertised", "ok", prefer, len(w) > 512))
        if len(w) > max(512, client):
            ctx.violation(f"response-exceeds-the-payload-size-the-client-advertised:{'pad' if pad else 'nopad'}", f"client payload {client}, ours {ours}: rendered {len(w)} octets without an explicit limit (prefer_truncation={prefer})", case)
            return


def check_limit(ctx, spy, m, info, key, L, prefer, full_len, min_len, want_sets, collide):
    ctx.count("evaluations")
    ctx.count("mon.render_under_limit")
    E = effective_limit(m, L)
    case = {"kind": "limit", "L": L, "prefer": prefer, "pad": m.pad, "tsig": key is not None, "info": info, "full_len": full_len, "text": None}
    spy.tables.clear()
    if key is not None and L % 2 == 0:
        # as on a message's FIRST rendering: the TSIG record is the placeholder use_tsig() makes (its MAC length comes from a
        # per-algorithm table), not the signed record a previous rendering left behind
        m.use_tsig(key, **info.get("tsig_kw", {}))
        ctx.count("mon.first_rendering_with_tsig_placeholder")
    try:
        w = render(m, L, prefer)
        outcome = "ok"
    except dns.exception.TooBig:
        w = None
        outcome = "TooBig"
    except Exception as e:
        ctx.violation("render-foreign:" + core.exc_sig(e), f"L={L} prefer={prefer}: {e!r}", case)
        return
    tag = f"{'tsig' if key is not None else 'notsig'}:{'pad' if m.pad else 'nopad'}"
    if int(m.flags) != info["flags0"]:
        # rendering is an observation of the message: a truncated rendering must not leave TC (or anything) behind in the object
        ctx.violation(f"rendering-changed-the-message-flags:{tag}", f"L={L} prefer={prefer}: {info['flags0']:#x} -> {int(m.flags):#x}", case)
        m.flags = dns.flags.Flag(info["flags0"])
    if w is None:
        ctx.count("mon.toobig_legitimacy")
        # the TSIG reserve is estimated with an uncompressed key name, so a message whose final size is within
        # that slack of the limit may legitimately be refused
        slack = RN.wire_len(key.name.labels) if key is not None else 0
        if not prefer:
            legit = full_len is None or full_len + slack > E
        else:
            legit = min_len is None or min_len + slack > E
        ctx.seen(("toobig", tag, prefer, legit))
        if not legit:
            ctx.violation(f"toobig-although-it-fits:{tag}:{'prefer_truncation' if prefer else 'no-truncation'}", f"L={L} E={E} full={full_len} minimal={min_len}", case)
        return
    case["wire"] = w
    if len(w) > E:
        ctx.violation(f"rendered-message-exceeds-limit:{tag}", f"len {len(w)} > E {E} (L={L})", case)
    if not prefer and full_len is not None and len(w) != full_len:
        ctx.violation(f"untruncated-render-size-differs:{tag}", f"len {len(w)} vs full {full_len}", case)
    try:
        walk = WW.walk(w)
    except WW.WalkError as e:
        ctx.violation(f"truncated-message-not-walkable:{tag}", f"L={L}: {e}", case)
        return
    if walk["end"] != len(w):
        ctx.violation(f"truncated-message-length-inconsistent:{tag}", f"walker end {walk['end']} len {len(w)}", case)
        return
    # compression table: nothing at or beyond the final length, all targets decode
    if spy.tables:
        check_compression(ctx, spy.tables[-1], w, case, ":" + tag, hits=False)  # hits made while rendering rolled-back RRsets are transient
    # parse with the library (TSIG must validate)
    try:
        # (a record reporting a TSIG error is parsed without validation: validating it raises the peer's error by design)
        m2 = dns.message.from_wire(w, keyring=key if not info.get("tsig_kw") else False, origin=m.origin)
    except Exception as e:
        ctx.violation(f"truncated-message-not-parseable:{tag}:" + core.exc_sig(e), f"L={L}: {e!r}", case)
        return
    update = dns.opcode.is_update(m.flags)
    # prefix rule on the walker's view
    ctx.count("mon.prefix_check")
    want_rrs, bounds = want_sets
    got_rrs = got_rr_list(w, walk, update, collide)
    n = len(got_rrs)
    if got_rrs != want_rrs[:n]:
        i = next((k for k in range(min(n, len(want_rrs))) if got_rrs[k] != want_rrs[k]), min(n, len(want_rrs)))
        ctx.violation(f"kept-records-not-a-prefix:{tag}", f"L={L} kept {n} of {len(want_rrs)} RRs; first difference at RR {i}: got {got_rrs[i] if i < n else None!r} want {want_rrs[i] if i < len(want_rrs) else None!r}"[:1500], case)
        return
    if n not in bounds:
        ctx.violation(f"partial-rrset-kept:{tag}", f"L={L} kept {n} RRs; RRset boundaries {sorted(bounds)[:20]}", case)
        return
    missing = want_rrs[n:]
    if missing:
        ctx.count("mon.truncated_outcomes")
    # TC rule
    ctx.count("mon.tc_rule")
    tc_in = bool(info["flags0"] & dns.flags.TC)  # the flags the message had before anything was rendered
    tc_out = bool(walk["flags"] & 0x0200)
    missing_before_additional = any(r[0] < 3 for r in missing)
    if tc_out != (tc_in or missing_before_additional):
        ctx.violation(f"tc-flag-wrong:{'set-without-loss' if tc_out else 'clear-despite-loss'}:{tag}", f"L={L} missing sections {[r[0] for r in missing[:6]]}", case)
    if (walk["flags"] & ~0x0200) != (int(m.flags) & ~0x0200):
        ctx.violation(f"flags-changed-by-truncation:{tag}", f"{walk['flags']:#x} vs {int(m.flags):#x}", case)
    # OPT / TSIG still there, counts consistent
    ad = walk["records"][2]
    opts = [r for r in ad if r[1] == 41]
    tsigs = [r for r in ad if r[1] == 250]
    if len(opts) != (1 if m.opt is not None else 0):
        ctx.violation(f"opt-lost-or-duplicated:{tag}", f"L={L}", case)
    if len(tsigs) != (1 if key is not None else 0):
        ctx.violation(f"tsig-lost-or-duplicated:{tag}", f"L={L}", case)
    if key is not None and (not ad or ad[-1][1] != 250):
        ctx.violation(f"tsig-not-last:{tag}", "", case)
    if m.opt is not None and opts:
        if m2.ednsflags != m.ednsflags or m2.payload != m.payload:
            ctx.violation(f"opt-fields-changed:{tag}", "", case)
        o2 = [o for o in m2.options if int(o.otype) != 12]
        if o2 != [o for o in m.options if int(o.otype) != 12]:
            ctx.violation(f"opt-options-changed:{tag}", "", case)
        npad = sum(1 for o in m2.options if int(o.otype) == 12)
        had = sum(1 for o in m.options if int(o.otype) == 12)  # a padding option already present (a re-rendered padded message) is kept
        if npad != had + (1 if m.pad else 0):
            ctx.violation(f"padding-option-count-wrong:{tag}", f"{npad}", case)
    for i in range(4):
        if m2.section_count(i) != walk["counts"][i]:
            ctx.violation(f"counts-inconsistent-after-truncation:{tag}", f"section {i}: {m2.section_count(i)} vs header {walk['counts'][i]}", case)
    # padding
    if m.pad and m.opt is not None:
        ctx.count("mon.padding_multiple")
        if len(w) % m.pad != 0:
            ctx.violation(f"padded-length-not-multiple:{tag}", f"len {len(w)} block {m.pad} remainder {len(w) % m.pad}", case)
    ctx.seen(("ok", tag, prefer, n % 8, bool(missing), "L0" if L == 0 else "Llt512" if L < 512 else "L"))


def run(spec, ctx):
    rng = ctx.rng
    spy = RendererSpy().install()
    try:
        for _ in range(2):
            beyond_64k_drill(ctx, rng)
        for _ in range(30):
            advertised_payload_drill(ctx, rng)
        for i in range(spec["n"]):
            if ctx.expired(1.0):
                break
            try:
                m, info = GM.gen_message(rng, kind=rng.choice(("response", "response", "other", "update", "notify")), size=rng.choice(("medium", "medium", "large")))
            except Exception as e:
                ctx.violation("message-construction-through-api-raised:" + core.exc_sig(e), repr(e), None)
                continue
            # padding needs EDNS
            pad = rng.choice((0, 0, 16, 128, 468))
            if pad:
                opts = list(m.options)
                if rng.random() < 0.25:
                    # as when a padded message that was parsed is rendered again: its OPT already carries a PADDING option
                    opts.insert(rng.randrange(len(opts) + 1), dns.edns.GenericOption(dns.edns.OptionType.PADDING, b"\x00" * rng.choice((0, 1, 7, 40, 200))))
                    ctx.count("mon.padding_option_already_present")
                m.use_edns(max(m.edns, 0), m.ednsflags, m.payload or 1232, options=opts, pad=pad)
                info["edns"] = m.edns
            if rng.random() < 0.2:
                # an OPT record that is large by itself (a long NSID / a bulky private option): limits below its size cannot be
                # met at all, and the refusal is the too-big error like any other
                big = dns.edns.GenericOption(rng.choice((3, 65001)), bytes(rng.randrange(256) for _ in range(rng.choice((300, 470, 480, 480, 490, 500, 500, 520, 700, 2000)))))
                m.use_edns(max(m.edns, 0), m.ednsflags, m.payload or 1232, options=list(m.options) + [big], pad=m.pad)
                info["edns"] = m.edns
                ctx.count("mon.bulky_opt_record")
            key = None
            if rng.random() < 0.5:
                # key name sharing a suffix with the message names (compressible) or not
                names = [rr.name for sec in m.sections for rr in sec if rr.name.is_absolute() and len(rr.name) > 1]
                if names and rng.random() < 0.6:
                    kn = dns.name.Name((b"key",) + rng.choice(names).labels[-min(3, len(rng.choice(names).labels)):])
                    if kn.labels[-1] != b"":
                        kn = dns.name.from_text("key.example.")
                else:
                    kn = dns.name.from_text("unrelated-key-name.invalid.")
                # every algorithm: the TSIG reserve and the padding arithmetic use a per-algorithm MAC size estimate
                alg = rng.choice((dns.tsig.HMAC_SHA256, dns.tsig.HMAC_SHA1, dns.tsig.HMAC_SHA512, dns.tsig.HMAC_SHA256_128, dns.tsig.HMAC_MD5, dns.tsig.HMAC_SHA224,
                                  dns.tsig.HMAC_SHA384, dns.tsig.HMAC_SHA384_192, dns.tsig.HMAC_SHA512_256))
                key = dns.tsig.Key(kn, bytes(rng.randrange(256) for _ in range(16)), alg)
                if rng.random() < 0.2:
                    # a TSIG error response: BADTIME carries six octets of "other data" (the server's clock) in the record
                    info["tsig_kw"] = {"tsig_error": 18, "other_data": bytes(rng.randrange(256) for _ in range(6))}
                    ctx.count("mon.tsig_with_other_data")
                m.use_tsig(key, **info.get("tsig_kw", {}))
            info["flags0"] = int(m.flags)
            collide = GM.has_case_collision(m, extra=[key.name] if key else [])
            want_sets = want_rr_list(m, collide)
            # full and minimal sizes (reference points for TooBig legitimacy)
            try:
                full_len = len(render(m, 65535, False))
            except dns.exception.TooBig:
                full_len = None
            mm = copy.copy(m)
            mm.sections = [[], [], [], []]
            mm.index = {}
            try:
                min_len = len(render(mm, 65535, False))
            except dns.exception.TooBig:
                min_len = None
            if full_len is None:
                continue
            # limits
            limits = {0, 1, 511, 512, 513, full_len - 1, full_len, full_len + 1, 65535, 70000}
            try:
                walk = WW.walk(render(m, 65535, False))
                bounds = [12] + [r[4] + r[5] for sec in walk["records"] for r in sec]
            except Exception:
                bounds = []
            if i % spec["exh_every"] == 0 and full_len < 2600:
                limits.update(range(512, full_len + 9))
                ctx.count("exhaustive.messages_with_every_limit")
            else:
                for b in bounds:
                    for d in (-3, -2, -1, 0, 1, 2, 3, 11, 12, 13):
                        limits.add(b + d)
                for _ in range(40):
                    limits.add(rng.randrange(512, max(513, full_len + 20)))
            limits = sorted(x for x in limits if x >= 0)
            if i < 1:
                ctx.sample({"info": info, "pad": pad, "tsig": key is not None, "full_len": full_len, "n_limits": len(limits), "rrs": len(want_sets[0])})
            if True:
                for L in rng.sample(limits, min(len(limits), 12)):
                    if 12 <= L <= 65535:
                        direct_renderer_drill(ctx, rng, m, L)
            for L in limits:
                for prefer in (True, False):
                    if ctx.expired(1.0):
                        break
                    check_limit(ctx, spy, m, info, key, L, prefer, full_len, min_len, want_sets, collide)
    finally:
        spy.uninstall()


def replay(case, ctx):
    ctx.notes.append("limit cases are regenerated from the seed (message objects are not serialised)")
