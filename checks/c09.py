"""C09 — zones survive write-then-read as text; equivalent spellings agree."""

import io
import os
import tempfile

import dns.btreezone
import dns.exception
import dns.name
import dns.node
import dns.rdata
import dns.rdataclass
import dns.rdataset
import dns.rdatatype
import dns.versioned
import dns.zone
import dns.zonefile

from vlib import core
from vlib.gen import names as GN
from vlib.gen import rdata as GR
from vlib.gen import zones as GZ
from vlib.ref import names as RN

PROP = "C09"
LEVEL = "exploration"
RULE = (
    "(1) generated zones (every record type whose values round-trip at record level, exotic owner names, delegations, CNAME "
    "nodes, comments) are written under sampled combinations of the lossless style knobs (sorted, want_origin, origin/relativize "
    "presentation, default_ttl None / present / absent, deduplicate_names, left justification of the four columns, base64/hex chunk "
    "sizes, want_generic, want_comments) through to_styled_text, to_text keywords and to_file/from_file, and read back: content incl. "
    "TTLs and == must hold; (2) a reference writer re-spells one zone in equivalent ways (inherited owner / TTL / class, either "
    "order of TTL and class, $TTL vs explicit vs SOA-minimum default, $ORIGIN-relative vs absolute, $GENERATE with offset/width/base "
    "vs its expansion, parenthesised multi-line, comments, mnemonic case, TYPEn/CLASSn): all must load to the same content; (3) "
    "out-of-zone lines never change the result; (4) no loaded node mixes CNAME with other data. Distinct by (mode, style-knob "
    "signature or re-spelling kind, zone class, relativize)."
)
RULE += " " + (
    "Also: end-of-line comments per record under want_comments; $INCLUDE file [origin] against its one-file expansion; signed-looking zones with several RRSIGs per covered type. A node whose first record set is empty; RFC 3597 rdata spelling under a mid-file $ORIGIN."
)
ASSUMPTIONS = [
    "records whose own text form does not round-trip (C05 known findings) are kept out of the generated zones; C09 judges the zone-level writer/reader",
    "lossless style set excludes right justification of the owner column and non-space chunk separators",
    "content = {owner: {(type, covers): (ttl, set of canonical rdata wire against the origin)}}",
]
REQUIRED = ["mon.include_vs_expansion", "mon.comments_roundtrip_with_comments", "mon.generate_partly_outside_zone", "mon.style_api_spellings", "mon.cname_conflict_injected", "mon.style_roundtrip", "mon.file_roundtrip", "mon.respelling", "mon.generate_vs_expansion", "mon.out_of_zone_ignored", "mon.cname_exclusive"]
BUDGET = {"quick": 45.0, "thorough": 480.0}

FACTORIES = [("plain", dns.zone.Zone), ("versioned", dns.versioned.Zone), ("btree", dns.btreezone.Zone)]


def shards(tier, seed):
    mult = 1 if tier == "quick" else 16
    return [{"n": 60 * mult, "styles": 10} for _ in range(16)]


def roundtrippable(v):
    try:
        rd = GR.build(v)
        return dns.rdata.from_text(rd.rdclass, rd.rdtype, rd.to_text()) == rd
    except Exception:
        return False


def clean_zone(rng):
    """a model zone whose every record round-trips at record level"""
    mz = GZ.gen_zone(rng, plain=rng.random() < 0.6, exotic_names=rng.random() < 0.4, size=rng.choice((2, 5, 10)))
    if rng.random() < 0.5:
        # a signed-looking zone: signature sets next to some of the data, often with two or three signatures covering the same
        # type at one owner (two keys, a key roll-over); RRSIG(CNAME) stays out (it is CNAME-like for the node rule)
        from vlib.gen import rdata as _GR
        import struct as _struct

        for exact in list(mz.names()):
            for (rdtype, covers), (ttl, vals) in list(mz.sets(exact).items()):
                if rdtype in (46, 5, 6) or rng.random() < 0.6:
                    continue
                try:
                    base = GZ.simple_val(rng, "RRSIG", mz.origin, True)
                except Exception:
                    continue
                for n in range(rng.choice((1, 2, 2, 3))):
                    kt = (base.args[6] + 7 * n + 1) % 65536
                    args = [rdtype] + list(base.args[1:6]) + [kt] + list(base.args[7:])
                    parts = [_struct.pack("!H", rdtype)] + list(base.parts[1:6]) + [_struct.pack("!H", kt)] + list(base.parts[7:])
                    mz.add(exact, _GR.Val(1, 46, "RRSIG", args, parts, base.tags), ttl)
    for k, (exact, sets) in list(mz.nodes.items()):
        for key, (ttl, vals) in list(sets.items()):
            good = [v for v in vals if roundtrippable(v)]
            if good:
                sets[key][1] = good
            else:
                del sets[key]
        if not sets:
            del mz.nodes[k]
    return mz


NEUTRAL_TYPES = {47, 50, 25}  # NSEC, NSEC3, KEY: the only data (with their RRSIGs) that may sit next to a CNAME


def kind_of(rdtype, covers):
    """independent of dns.node: 'cname' | 'neutral' | 'regular'"""
    t = int(covers) if int(rdtype) == 46 else int(rdtype)
    return "cname" if t == 5 else "neutral" if t in NEUTRAL_TYPES else "regular"


def cname_exclusive(ctx, z, case, tag):
    ctx.count("mon.cname_exclusive")
    for name, node in z.nodes.items():
        kinds = {kind_of(r.rdtype, r.covers) for r in node.rdatasets}
        if "cname" in kinds and "regular" in kinds:
            ctx.violation(f"cname-coexists-with-other-data:{tag}", f"{name}", case)
            return False
    return True


CONFLICT_TYPES = [("A", "10.0.0.1"), ("AAAA", "2001:db8::1"), ("TXT", '"x"'), ("NS", "ns.elsewhere."), ("MX", "10 mx.elsewhere."), ("DS", "1 8 2 " + "ab" * 32),
                  ("DNSKEY", "256 3 8 AQAB"), ("CDNSKEY", "256 3 8 AQAB"), ("KEY", "256 3 8 AQAB"), ("NSEC", "z.example. A NSEC"), ("NSEC3", "1 0 0 - 00000000000000000000000000000000 A"),
                  ("DNAME", "t.elsewhere."), ("SRV", "0 0 1 t.elsewhere."), ("CAA", '0 issue "x"'), ("SVCB", "1 . alpn=h2"), ("HINFO", '"a" "b"'), ("LOC", "1 N 1 E 1m"), ("TYPE65280", "\\# 1 00"),
                  ("RRSIG", "A 8 2 300 20300101000000 20200101000000 1 example. q83v"), ("RRSIG", "DNSKEY 8 2 300 20300101000000 20200101000000 1 example. q83v"),
                  ("RRSIG", "NSEC 8 2 300 20300101000000 20200101000000 1 example. q83v"), ("RRSIG", "CNAME 8 2 300 20300101000000 20200101000000 1 example. q83v")]


def check_cname_conflicts(ctx, rng):
    """a CNAME (or RRSIG(CNAME)) and one other record set at the same owner, in either order, for a catalogue of types: the file
    is refused or what is loaded has no CNAME next to ordinary data; the neutral types must load next to it"""
    ctx.count("evaluations")
    zname, factory = FACTORIES[rng.randrange(3)]
    relativize = rng.random() < 0.5
    t, text = rng.choice(CONFLICT_TYPES)
    cn = rng.choice(("CNAME target.elsewhere.", "RRSIG CNAME 8 2 300 20300101000000 20200101000000 1 example. q83v"))
    lines = [f"alias 300 IN {cn}", f"alias 300 IN {t} {text}"]
    if rng.random() < 0.5:
        lines.reverse()
    zt = "$ORIGIN example.\n@ 300 IN SOA ns h 1 2 3 4 5\n@ 300 IN NS ns\n" + "\n".join(lines) + "\n"
    case = {"kind": "cname-conflict", "zone": zname, "relativize": relativize, "text": zt}
    rd = dns.rdata.from_text("IN", t, text, origin=dns.name.from_text("example."))
    other = kind_of(rd.rdtype, rd.covers())
    ctx.count("mon.cname_conflict_injected")
    ctx.seen(("cname-conflict", t if t != "RRSIG" else text.split()[0], cn.split()[0], zname, lines[0].startswith("alias 300 IN " + cn[:5])))
    try:
        z = dns.zone.from_text(zt, origin="example.", relativize=relativize, zone_factory=factory)
    except dns.zonefile.CNAMEAndOtherData:
        if other != "regular":
            ctx.violation(f"neutral-or-cname-like-type-refused-next-to-cname:{t}", "", case)
        return
    except Exception as e:
        ctx.violation(f"cname-conflict-file-raised:{type(e).__name__}", repr(e), case)
        return
    node = z.get_node("alias")
    kinds = {kind_of(r.rdtype, r.covers) for r in node.rdatasets} if node is not None else set()
    if "cname" in kinds and "regular" in kinds:
        ctx.violation(f"cname-coexists-with-other-data:injected:{t if t != 'RRSIG' else 'RRSIG-' + text.split()[0]}", f"{zname} relativize={relativize}", case)
    elif other == "neutral" and not ("cname" in kinds and "neutral" in kinds):
        ctx.violation(f"neutral-type-did-not-survive-next-to-cname:{t}", f"{kinds}", case)


def gen_style(rng, z, ttls):
    origin_mode = rng.choice(("none", "rel", "abs"))
    kw = dict(
        sorted=rng.random() < 0.6,
        want_origin=rng.random() < 0.4,
        deduplicate_names=rng.random() < 0.4,
        name_just=rng.choice((0, 0, -8, -30)),
        ttl_just=rng.choice((0, 0, -6, 6)),
        rdclass_just=rng.choice((0, 0, -4, 4)),
        rdtype_just=rng.choice((0, 0, -8, 8)),
        base64_chunk_size=rng.choice((32, 32, 0, 1, 4, 64, 128)),
        hex_chunk_size=rng.choice((128, 128, 0, 1, 4, 32, 64)),
        want_generic=rng.random() < 0.25,
        want_comments=rng.random() < 0.3,
        default_ttl=rng.choice((None, None, rng.choice(ttls), 12345)),
        nl=rng.choice((None, "\n")),  # CRLF output is not re-readable from a str (the tokenizer does not treat CR as white space): outside the lossless set
    )
    if origin_mode == "rel":
        kw.update(origin=z.origin, relativize=True)
    elif origin_mode == "abs":
        kw.update(origin=z.origin, relativize=False)
    return dns.zone.ZoneStyle(**kw), origin_mode


def check_styles(ctx, rng, mz, nstyles):
    ctx.count("evaluations")
    zname, factory = FACTORIES[rng.randrange(3)]
    relativize = rng.random() < 0.5
    tag = f"{zname}:{'rel' if relativize else 'abs'}"
    z = GZ.build_lib_zone(mz, relativize, zone_factory=factory, comment_rng=rng if rng.random() < 0.6 else None)
    has_empty_set = False
    if zname == "plain" and rng.random() < 0.15:
        # a node whose FIRST record set is empty (left behind by find_rdataset(create=True) or clear()): it prints nothing, and
        # the owner name belongs on the first set that does print
        cands = [node for node in z.nodes.values() if len(node.rdatasets) >= 1 and all(int(r.rdtype) not in (99, 5) and int(r.covers) != 5 for r in node.rdatasets)]
        if cands:
            node = rng.choice(cands)
            node.rdatasets.insert(0, dns.rdataset.Rdataset(dns.rdataclass.IN, 99))
            has_empty_set = True
            ctx.count("mon.zones_with_an_empty_first_record_set")
    want = GZ.content_of_lib_zone(z)
    if has_empty_set:
        want = {k: {kk: v for kk, v in d.items() if v[1]} for k, d in want.items()}
    want_comments = GZ.comments_of_lib_zone(z)
    ttls = sorted({v[0] for d in want.values() for v in d.values()})
    base_case = {"kind": "style", "zone": zname, "relativize": relativize, "zone_text": GZ.mz_to_text(mz)[:3000]}
    if not cname_exclusive(ctx, z, base_case, tag):
        return
    for i in range(nstyles):
        style, origin_mode = gen_style(rng, z, ttls)
        case = dict(base_case, style=repr(style)[:600])
        ctx.count("mon.style_roundtrip")
        sig = (origin_mode, style.want_generic, style.deduplicate_names, style.default_ttl is not None, style.want_origin, style.sorted, style.name_just != 0, relativize)
        ctx.seen(("style",) + sig + (zname,))
        try:
            text = z.to_styled_text(style)
        except Exception as e:
            cause = "want_generic+relativized-zone+no-style-origin" if (style.want_generic and relativize and origin_mode == "none") else "want_generic" if style.want_generic else "other"
            ctx.violation(f"zone-to_styled_text-raised:{cause}:" + core.exc_sig(e), f"{tag}: {e!r}", case)
            continue
        # the other spellings of "write with this style" give the same octets
        try:
            import io as _io

            other = {"to_text(style=)": z.to_text(style=style)}
            f = _io.StringIO()
            z.to_file(f, style=style)
            other["to_file(style=)"] = f.getvalue()
            f = _io.StringIO()
            z.to_styled_file(style, f)
            other["to_styled_file"] = f.getvalue()
            for how, t2 in other.items():
                ctx.count("mon.style_api_spellings")
                if t2 != text:
                    ctx.violation(f"style-ignored-or-differs:{how}", f"{tag}: {len(t2)} vs {len(text)} characters", case)
                    break
        except Exception as e:
            ctx.violation("styled-output-spelling-raised:" + core.exc_sig(e), repr(e), case)
        try:
            z2 = dns.zone.from_text(text, origin=z.origin, relativize=relativize, zone_factory=factory, check_origin=False)
        except Exception as e:
            cause = "want_generic" if style.want_generic else "dedup" if style.deduplicate_names else "default_ttl" if style.default_ttl is not None else "other"
            ctx.violation(f"written-zone-cannot-be-read:{cause}:" + type(e).__name__, f"{tag}: {e!r}\n--- text ---\n{text[:1500]}", case)
            continue
        got = GZ.content_of_lib_zone(z2)
        if got != want:
            cause = "default_ttl" if style.default_ttl is not None else "dedup" if style.deduplicate_names else "want_generic" if style.want_generic else "origin-mode-" + origin_mode
            ctx.violation(f"zone-differs-after-write-read:{cause}", f"{tag}: {diffc(got, want)}\n--- text ---\n{text[:1200]}", case)
            continue
        if not (z2 == z) and not has_empty_set:
            # (an empty record set counts for Node.__eq__ but has no text: such zones are compared by content only)
            ctx.violation("zone-equality-fails-after-write-read", tag, case)
        if style.want_comments:
            # comments are part of what this style writes: each record comes back with its own, the others with none
            ctx.count("mon.comments_roundtrip")
            gotc = GZ.comments_of_lib_zone(z2)
            if any(want_comments.values()):
                ctx.count("mon.comments_roundtrip_with_comments")
            bad = [(k[0], k[1], want_comments.get(k), gotc.get(k)) for k in want_comments if (want_comments[k] or None) != (gotc.get(k) or None)]
            if bad:
                owner, rdtype, wc, gc = bad[0]
                kindc = "comment-lost" if wc and not gc else "comment-appears-on-a-record-that-had-none" if gc and not wc else "comment-changed"
                ctx.violation(f"record-comments-differ-after-write-read:{kindc}", f"{tag}: {RN.to_text(owner)} type {rdtype}: had {wc!r} read back {gc!r} ({len(bad)} records differ)\n--- text ---\n{text[:1200]}", case)
        cname_exclusive(ctx, z2, case, tag)
    # keyword form and file round trip
    ctx.count("mon.file_roundtrip")
    try:
        for kws in (dict(), dict(sorted=False), dict(relativize=False), dict(want_origin=True, relativize=True)):
            text = z.to_text(**kws)
            z2 = dns.zone.from_text(text, origin=z.origin, relativize=relativize, zone_factory=factory, check_origin=False)
            if GZ.content_of_lib_zone(z2) != want:
                ctx.violation(f"zone-differs-after-to_text-keywords:{sorted(kws)}", tag, base_case)
        fd, path = tempfile.mkstemp(prefix="c09-", suffix=".zone", dir=os.path.join(core.ROOT, ".work") if os.path.isdir(os.path.join(core.ROOT, ".work")) else None)
        os.close(fd)
        try:
            z.to_file(path, sorted=rng.random() < 0.5, relativize=rng.random() < 0.5, want_origin=rng.random() < 0.5)
            z3 = dns.zone.from_file(path, origin=z.origin, relativize=relativize, zone_factory=factory, check_origin=False)
            if GZ.content_of_lib_zone(z3) != want:
                ctx.violation("zone-differs-after-to_file-from_file", tag, base_case)
        finally:
            os.unlink(path)
    except Exception as e:
        ctx.violation("zone-file-roundtrip-raised:" + core.exc_sig(e), f"{tag}: {e!r}", base_case)


def diffc(a, b):
    out = []
    for k in set(a) | set(b):
        if a.get(k) != b.get(k):
            da, db = a.get(k, {}), b.get(k, {})
            for t in set(da) | set(db):
                if da.get(t) != db.get(t):
                    out.append(f"{RN.to_text(k)} type {t}: got {'-' if t not in da else (da[t][0], len(da[t][1]))} want {'-' if t not in db else (db[t][0], len(db[t][1]))}")
    return "; ".join(sorted(out)[:5])


# ------------------------------------------------------------------------------------------ reference writer: equivalent re-spellings


def records_of(mz):
    """flat list of (owner labels, ttl, rdata object (absolute names), type text)"""
    out = []
    for exact in mz.sorted_names():
        for (rdtype, covers), (ttl, vals) in mz.sets(exact).items():
            for v in vals:
                rd = GR.build(v)
                out.append((exact, ttl, rd, dns.rdatatype.to_text(rd.rdtype)))
    # SOA first so that the SOA-minimum default rule can apply
    out.sort(key=lambda r: (0 if r[3] == "SOA" else 1))
    return out


def spell_zone(rng, mz, kind):
    """returns master-file text equivalent to mz"""
    origin = mz.origin
    o = dns.name.Name(origin)
    recs = records_of(mz)
    lines = []
    relnames = kind != "origin-switch" and (kind in ("origin-relative", "mixed") or rng.random() < 0.3)
    if relnames:
        lines.append("$ORIGIN " + RN.to_text(origin))

    def owner_text(labels):
        n = dns.name.Name(labels)
        if relnames and (kind == "origin-relative" or rng.random() < 0.5):
            return n.relativize(o).to_text()
        return n.to_text()

    def rdata_text(rd):
        if kind == "origin-switch":
            return rd.to_text()
        if relnames and rng.random() < 0.5:
            return rd.to_text(origin=o, relativize=True)
        return rd.to_text()

    soa_min = None
    for exact, ttl, rd, tt in recs:
        if tt == "SOA":
            soa_min = rd.minimum
    default_ttl = None
    use_soa_default = kind == "soa-minimum-default" and soa_min is not None
    if kind == "ttl-directive":
        default_ttl = rng.choice([r[1] for r in recs])
        lines.append(f"$TTL {default_ttl}")
    last_owner = None
    last_ttl = None
    cur_origin = None
    if kind == "inherited-ttl":
        # no $TTL and the SOA comes last, so no default TTL is ever in force: a record without a TTL takes the last TTL
        # that was written explicitly -- whichever of the two field orders that record used
        recs = [r for r in recs if r[3] != "SOA"] + [r for r in recs if r[3] == "SOA"]
    for exact, ttl, rd, tt in recs:
        ot = owner_text(exact)
        if kind == "origin-switch":
            # move $ORIGIN around: owners are spelled relative to the directive in force; rdata names stay absolute
            if len(exact) > 1 and rng.random() < 0.7:
                want_o = exact[rng.randint(0, min(2, len(exact) - 1)):]
            else:
                want_o = tuple(origin)
            if want_o != cur_origin:
                if cur_origin is not None and len(want_o) > len(cur_origin) and want_o[len(want_o) - len(cur_origin):] == cur_origin and rng.random() < 0.5:
                    # the argument of $ORIGIN is a domain name like any other: a relative one is relative to the origin in force
                    lines.append("$ORIGIN " + dns.name.Name(want_o[: len(want_o) - len(cur_origin)]).to_text())
                else:
                    lines.append("$ORIGIN " + RN.to_text(want_o))
                cur_origin = want_o
            ot = dns.name.Name(exact).relativize(dns.name.Name(want_o)).to_text()
        if kind in ("inherited-owner", "mixed") and last_owner == exact and rng.random() < 0.8:
            ot = rng.choice((" ", "\t", "    "))[0:] if True else ot
            ot = rng.choice((" ", "\t", "     "))
        last_owner = exact
        cls = "IN"
        typ = tt
        if kind == "mnemonic-case":
            cls = rng.choice(("in", "In", "IN"))
            typ = rng.choice((tt.lower(), tt))
        elif kind == "generic-mnemonics":
            cls = rng.choice(("CLASS1", "IN"))
            typ = rng.choice((f"TYPE{int(rd.rdtype)}", tt))
        ttl_text = str(ttl)
        if kind == "ttl-units" and ttl > 0:
            parts = []
            rest = ttl
            for unit, sec in (("w", 604800), ("d", 86400), ("h", 3600), ("m", 60), ("s", 1)):
                q, rest = divmod(rest, sec)
                if q:
                    parts.append(f"{q}{rng.choice((unit, unit.upper()))}")
            ttl_text = "".join(parts)
        fields = None
        omit_ttl = False
        if default_ttl is not None and ttl == default_ttl and rng.random() < 0.8:
            omit_ttl = True
        if use_soa_default and (tt == "SOA" and ttl == soa_min or (tt != "SOA" and ttl == soa_min and rng.random() < 0.8)):
            omit_ttl = True
        if kind == "inherited-ttl" and last_ttl == ttl and tt != "SOA" and rng.random() < 0.7:
            omit_ttl = True
        omit_class = kind in ("inherited-class", "mixed") and rng.random() < 0.6
        order = rng.choice(("ttl-class", "class-ttl")) if kind in ("class-ttl-order", "mixed", "inherited-ttl") else "ttl-class"
        mid = []
        if order == "ttl-class":
            if not omit_ttl:
                mid.append(ttl_text)
            if not omit_class:
                mid.append(cls)
        else:
            if not omit_class:
                mid.append(cls)
            if not omit_ttl:
                mid.append(ttl_text)
        rt = rdata_text(rd)
        if kind in ("origin-switch", "generic-mnemonics") and rng.random() < 0.35:
            # the RFC 3597 spelling of the same rdata (octets of the uncompressed wire form): names inside a known type are
            # then relativized like the text spelling's would have been -- to the ZONE origin, whatever $ORIGIN is in force
            gw = rd.to_wire()
            rt = f"\\# {len(gw)} {gw.hex()}" if gw else "\\# 0"
        if kind == "parenthesised" and tt in ("SOA", "MX", "SRV", "A", "AAAA", "NS", "DS") and '"' not in rt:
            toks = rt.split(" ")
            rt = "(\n\t" + "\n\t".join(toks) + " ; note\n\t)"
        line = " ".join([ot] + mid + [typ, rt]) if ot.strip() else ot + " ".join(mid + [typ, rt])
        if kind == "comments" and rng.random() < 0.5:
            line += rng.choice((" ; a comment", " ;", " ; $TTL 5 \"quoted\" (paren"))
            if rng.random() < 0.3:
                lines.append("; full-line comment")
                lines.append("")
        lines.append(line)
        if not omit_ttl:
            last_ttl = ttl  # the last TTL written explicitly
    return "\n".join(lines) + "\n"


def fmt_index(index, base, width):
    return format(index, base).zfill(width)


def generate_case(rng):
    """returns ($GENERATE text, expansion records) for one family, single-token rhs"""
    rt = rng.choice(("A", "CNAME", "PTR", "AAAA"))
    start = rng.choice((0, 1, 5, 240))
    stop = start + rng.choice((0, 1, 4, 9))
    step = rng.choice((1, 1, 2, 3))
    rng_text = f"{start}-{stop}" + (f"/{step}" if step != 1 or rng.random() < 0.3 else "")
    loff, lw, lb = rng.choice((0, 1, 10)), rng.choice((0, 2, 4)), rng.choice(("d", "d", "x", "X", "o"))
    lsign = rng.choice(("", "-", "+"))
    if lsign == "-" and loff > start:
        lsign = ""
    delta = -loff if lsign == "-" else loff
    lmod = rng.choice(("plain", "brace-offset", "brace-full", "brace-width"))
    if lmod == "plain":
        lhs = "host$"
        lf = lambda i: "host" + str(i)
    elif lmod == "brace-offset":
        lhs = "host${%s%d}" % (lsign, loff)
        lf = lambda i: "host" + str(i + delta)
    elif lmod == "brace-width":
        lhs = "host${%s%d,%d}" % (lsign, loff, lw)
        lf = lambda i: "host" + fmt_index(i + delta, "d", lw)
    else:
        lhs = "host${%s%d,%d,%s}" % (lsign, loff, lw, lb)
        lf = lambda i: "host" + fmt_index(i + delta, lb, lw)
    if rt == "A":
        rhs, rf = "10.0.0.$", lambda i: f"10.0.0.{i}"
    elif rt == "AAAA":
        rhs, rf = "2001:db8::${0,0,x}", lambda i: f"2001:db8::{i:x}"
    elif rt == "CNAME":
        rhs, rf = "target${1,3}.example.", lambda i: f"target{fmt_index(i + 1, 'd', 3)}.example."
    else:
        rhs, rf = "p$.other.", lambda i: f"p{i}.other."
    if rt in ("CNAME", "PTR") and rng.random() < 0.4:
        rhs, rf = "peer$", lambda i: f"peer{i}"  # a relative target: resolved against the $ORIGIN in force, relativized to the zone
    if rng.random() < 0.35:
        # the iterator mentioned more than once on a side: every mention is substituted
        if rt in ("CNAME", "PTR"):
            rhs, rf = "srv$.rack$.dc$.example.", lambda i: f"srv{i}.rack{i}.dc{i}.example."
        elif rt == "A":
            rt, rhs, rf = "TXT", "unit-$-of-$", lambda i: f"unit-{i}-of-{i}"
        if lmod == "plain" and rng.random() < 0.5:
            lhs, lf = "host$-$", lambda i: f"host{i}-{i}"
    ttl = rng.choice(("300", "", "1h"))
    cls = rng.choice(("IN", ""))
    gen = " ".join(x for x in ("$GENERATE", rng_text, lhs, ttl, cls, rt, rhs) if x)
    ttl_num = {"300": 300, "1h": 3600, "": None}[ttl]
    exp = [(lf(i), ttl_num, rt, rf(i)) for i in range(start, stop + 1, step)]
    return gen, exp


def check_generate_partly_outside(ctx, rng):
    """a $GENERATE whose iterator sits in a label ABOVE the zone cut: some generated owners are in the zone, some are not; the
    ones outside are ignored one by one, exactly as in the expansion"""
    ctx.count("evaluations")
    ctx.count("mon.generate_partly_outside_zone")
    zname, factory = FACTORIES[rng.randrange(3)]
    relativize = rng.random() < 0.5
    inside = rng.randrange(0, 4)
    head = "$TTL 300\n%d.gen.test. IN SOA ns.%d.gen.test. h.%d.gen.test. 1 2 3 4 5\n%d.gen.test. IN NS ns.%d.gen.test.\n" % ((inside,) * 5)
    t1 = head + "$GENERATE 0-3 h.$.gen.test. A 10.0.0.$\n" + "after.%d.gen.test. A 10.9.9.9\n" % inside
    t2 = head + "".join(f"h.{i}.gen.test. A 10.0.0.{i}\n" for i in range(4)) + "after.%d.gen.test. A 10.9.9.9\n" % inside
    case = {"kind": "generate-partly-outside", "zone": zname, "relativize": relativize, "text": t1}
    try:
        o = f"{inside}.gen.test."
        z1 = dns.zone.from_text(t1, origin=o, relativize=relativize, zone_factory=factory)
        z2 = dns.zone.from_text(t2, origin=o, relativize=relativize, zone_factory=factory)
        if GZ.content_of_lib_zone(z1) != GZ.content_of_lib_zone(z2):
            ctx.violation("generate-differs-from-expansion:owners-partly-outside-zone", f"first in-zone index {inside}: {diffc(GZ.content_of_lib_zone(z1), GZ.content_of_lib_zone(z2))}", case)
    except Exception as e:
        ctx.violation(f"generate-or-expansion-rejected:partly-outside:{type(e).__name__}", repr(e), case)


def check_respellings(ctx, rng, mz):
    ctx.count("evaluations")
    zname, factory = FACTORIES[rng.randrange(3)]
    relativize = rng.random() < 0.5
    tag = f"{zname}:{'rel' if relativize else 'abs'}"
    origin = dns.name.Name(mz.origin)
    z = GZ.build_lib_zone(mz, relativize, zone_factory=factory)
    want = GZ.content_of_lib_zone(z)
    for kind in ("plain", "origin-relative", "inherited-owner", "ttl-directive", "soa-minimum-default", "inherited-class", "class-ttl-order", "mnemonic-case", "generic-mnemonics", "ttl-units",
                 "parenthesised", "comments", "origin-switch", "inherited-ttl", "mixed"):
        ctx.count("mon.respelling")
        text = spell_zone(rng, mz, kind)
        case = {"kind": "respell", "spelling": kind, "zone": zname, "relativize": relativize, "text": text[:3000]}
        ctx.seen(("respell", kind, zname, relativize))
        try:
            z2 = dns.zone.from_text(text, origin=origin, relativize=relativize, zone_factory=factory, check_origin=False)
        except Exception as e:
            ctx.violation(f"equivalent-spelling-rejected:{kind}:{type(e).__name__}", f"{tag}: {e!r}", case)
            continue
        got = GZ.content_of_lib_zone(z2)
        if got != want:
            ctx.violation(f"equivalent-spelling-loads-differently:{kind}", f"{tag}: {diffc(got, want)}", case)
            continue
        cname_exclusive(ctx, z2, case, tag)
        # (3) out-of-zone lines are ignored
        ctx.count("mon.out_of_zone_ignored")
        lines = text.split("\n")
        pos = rng.randrange(1, len(lines)) if len(lines) > 2 else len(lines)
        noise = rng.choice(("outside.invalid. 300 IN A 192.0.2.1", "www.outside-zz9. 300 IN TXT \"x\"", "invalid. 60 IN MX 10 mail.invalid."))
        if "(" in "\n".join(lines[:pos]) and ")" not in "\n".join(lines[:pos]).split("(")[-1]:
            pos = len(lines) - 1
        text3 = "\n".join(lines[:pos] + [noise] + lines[pos:])
        # continuation lines after it inherit the out-of-zone owner (inherited = explicit owner), so they are ignored too
        block = [noise] + [rng.choice((" ", "\t", "      ")) + rng.choice(('300 IN TXT "continuation"', "IN 60 A 192.0.2.9", "60 IN MX 5 mail.invalid.", "IN AAAA 2001:db8::9", "77 TXT \"c\""))
                           for _ in range(rng.choice((0, 1, 1, 2, 3)))]
        starts = [i for i, l in enumerate(lines) if l and l[0] not in " \t$;"]
        if kind in ("parenthesised", "comments", "soa-minimum-default", "inherited-ttl") or not starts or rng.random() < 0.25:
            text3 = text + "\n".join(block) + "\n"  # (kinds where a line may sit inside parentheses, or omit its TTL without a $TTL in force)
        else:
            pos = rng.choice(starts)
            text3 = "\n".join(lines[:pos] + block + lines[pos:])
        ctx.seen(("out-of-zone-block", len(block), kind))
        try:
            z3 = dns.zone.from_text(text3, origin=origin, relativize=relativize, zone_factory=factory, check_origin=False)
            if GZ.content_of_lib_zone(z3) != want:
                ctx.violation("out-of-zone-record-changed-zone", f"{tag}", dict(case, text=text3[:3000]))
        except Exception as e:
            ctx.violation(f"out-of-zone-record-rejected:{type(e).__name__}", f"{tag}: {e!r}", dict(case, text=text3[:3000]))
    # $GENERATE versus its expansion
    for _ in range(3):
        ctx.count("mon.generate_vs_expansion")
        gen, exp = generate_case(rng)
        head = f"$ORIGIN {RN.to_text(mz.origin)}\n$TTL 777\n@ IN SOA ns hostmaster 1 2 3 4 5\n@ IN NS ns\n"
        if rng.random() < 0.4 and RN.fits((b"host0000000", b"lab") + tuple(mz.origin)):
            head += f"$ORIGIN lab.{RN.to_text(mz.origin)}\n"  # a mid-file $ORIGIN strictly below the zone origin
        if rng.random() < 0.5:
            # a record with a TTL of its own just before: a line (or directive) without a TTL takes the $TTL default, not the last
            # TTL that happened to be written
            head += f"pre-{rng.randrange(100)} {rng.choice((60, 86400, 30))} IN A 10.9.9.9\n"
        # the same record written twice with different TTLs, in either order: the set's TTL is the lower one
        lo, hi = rng.choice(((100, 300), (1, 86400), (0, 5)))
        dup1 = f"dup {hi} IN A 10.8.8.8\ndup {lo} IN A 10.8.8.8\n"
        dup2 = f"dup {lo} IN A 10.8.8.8\ndup {hi} IN A 10.8.8.8\n"
        t1 = head + dup1 + gen + "\n"
        t2 = head + dup2 + "".join(f"{o} {ttl if ttl is not None else ''} IN {rt} {rd}\n" for o, ttl, rt, rd in exp)
        case = {"kind": "generate", "generate": gen, "expansion": t2[-1500:]}
        try:
            z1 = dns.zone.from_text(t1, origin=origin, relativize=relativize, zone_factory=factory)
            z2 = dns.zone.from_text(t2, origin=origin, relativize=relativize, zone_factory=factory)
            c1, c2 = GZ.content_of_lib_zone(z1), GZ.content_of_lib_zone(z2)
            if c1 != c2:
                only_dup = all(k[0] == b"dup" for k in set(c1) | set(c2) if c1.get(k) != c2.get(k))
                ctx.violation("repeated-record-ttl-depends-on-line-order" if only_dup else "generate-differs-from-expansion", f"{gen}: {diffc(c1, c2)}", case)
            else:
                dk = [k for k in c1 if k[0] == b"dup"]
                if dk and c1[dk[0]][(1, 0)][0] != lo:
                    ctx.violation("repeated-record-ttl-not-the-minimum", f"TTLs {hi} and {lo}: loaded {c1[dk[0]][(1, 0)][0]}", case)
            ctx.seen(("generate", "{" in gen, gen.split()[-2]))
        except Exception as e:
            ctx.violation(f"generate-or-expansion-rejected:{type(e).__name__}", f"{gen}: {e!r}", case)


def check_include(ctx, rng):
    """$INCLUDE file [origin] versus the same records written out in one file: the origin argument (absolute or relative to
    the origin in force), a $ORIGIN inside the included file and the included file's owners all end with the included file --
    the parent continues with ITS origin and ITS last owner"""
    import shutil

    ctx.count("evaluations")
    ctx.count("mon.include_vs_expansion")
    zone_origin = "inc.test."
    tmpdir = tempfile.mkdtemp(prefix="c09-inc-", dir=os.path.join(core.ROOT, ".work"))
    counter = [0]
    expanded = []  # absolute one-file spelling
    features = set()

    def absname(label, origin):
        return origin if label == "@" else f"{label}.{origin}"

    def body(depth, origin, last_owner, first):
        """returns the text of one file; appends the absolute records to expanded"""
        lines = []
        for k in range(rng.randint(2, 6)):
            r = rng.random()
            if r < 0.2 and depth < 2:
                how = rng.choice(("none", "abs", "rel"))
                if how == "none":
                    inner_origin, arg = origin, ""
                elif how == "abs":
                    inner_origin = f"i{counter[0]}.{zone_origin}"
                    arg = " " + inner_origin
                else:
                    inner_origin = f"r{counter[0]}.{origin}"
                    arg = f" r{counter[0]}"
                counter[0] += 1
                features.add(f"include-origin-{how}-depth{depth + 1}")
                inner = body(depth + 1, inner_origin, last_owner, True)
                path = os.path.join(tmpdir, f"f{counter[0]}.zone")
                counter[0] += 1
                with open(path, "w", encoding="utf-8") as f:
                    f.write(inner)
                lines.append(f"$INCLUDE {path}{arg}" + (" ; trailing comment" if rng.random() < 0.2 else ""))
                # origin and last owner of THIS file are what they were
                first = False if last_owner is not None else first
            elif r < 0.32 and depth > 0:
                origin = f"o{counter[0]}.{zone_origin}"
                counter[0] += 1
                lines.append(f"$ORIGIN {origin}")
                features.add("origin-switch-inside-included-file")
            elif r < 0.5 and last_owner is not None and not first:
                counter[0] += 1
                lines.append(f"  60 IN TXT \"t{counter[0]}\"")
                expanded.append(f"{last_owner} 60 IN TXT \"t{counter[0]}\"")
                features.add("inherited-owner" + ("-after-include" if lines and len(lines) > 1 and lines[-2].startswith("$INCLUDE") else ""))
            else:
                counter[0] += 1
                label = f"h{counter[0]}"
                last_owner = absname(label, origin)
                first = False
                if rng.random() < 0.5:
                    lines.append(f"{label} 60 IN A 10.0.{counter[0] % 256}.1")
                    expanded.append(f"{last_owner} 60 IN A 10.0.{counter[0] % 256}.1")
                else:
                    lines.append(f"{label} 60 IN MX 10 mail")
                    expanded.append(f"{last_owner} 60 IN MX 10 mail.{origin}")
        return "\n".join(lines) + "\n"

    try:
        head = f"$ORIGIN {zone_origin}\n@ 60 IN SOA ns hostmaster 1 2 3 4 5\n@ 60 IN NS ns\n"
        expanded += [f"{zone_origin} 60 IN SOA ns.{zone_origin} hostmaster.{zone_origin} 1 2 3 4 5", f"{zone_origin} 60 IN NS ns.{zone_origin}"]
        text = head + body(0, zone_origin, zone_origin, False)
        case = {"kind": "include", "parent": text, "expanded": expanded[:60]}
        if not any(f.startswith("include-") for f in features):
            return
        relativize = rng.random() < 0.5
        zname, factory = FACTORIES[rng.randrange(3)]
        try:
            if rng.random() < 0.5:
                z = dns.zone.from_text(text, origin=zone_origin, relativize=relativize, allow_include=True, zone_factory=factory)
            else:
                ppath = os.path.join(tmpdir, "parent.zone")
                with open(ppath, "w", encoding="utf-8") as f:
                    f.write(text)
                z = dns.zone.from_file(ppath, origin=zone_origin, relativize=relativize, allow_include=True, zone_factory=factory)
            ref = dns.zone.from_text("\n".join(expanded) + "\n", origin=zone_origin, relativize=relativize)
        except Exception as e:
            ctx.violation("include-file-raised:" + core.exc_sig(e), repr(e), case)
            return
        for f in features:
            ctx.seen(("include", f))
        got, want = GZ.content_of_lib_zone(z), GZ.content_of_lib_zone(ref)
        if got != want:
            ctx.violation("include-differs-from-its-expansion", f"{zname}: {diffc(got, want)}", case)
    finally:
        shutil.rmtree(tmpdir, ignore_errors=True)


def run(spec, ctx):
    rng = ctx.rng
    os.makedirs(os.path.join(core.ROOT, ".work"), exist_ok=True)
    for i in range(spec["n"]):
        if ctx.expired(1.0):
            break
        mz = clean_zone(rng)
        check_styles(ctx, rng, mz, spec["styles"])
        check_respellings(ctx, rng, mz)
        for _ in range(6):
            check_cname_conflicts(ctx, rng)
        check_generate_partly_outside(ctx, rng)
        for _ in range(4):
            check_include(ctx, rng)
        if i < 1:
            ctx.sample({"zone": GZ.mz_to_text(mz)[:600]})


def replay(case, ctx):
    ctx.count("mon.respelling")
    if case.get("kind") == "respell":
        ctx.notes.append("re-spelling text recorded in the case; compare by loading it next to the plain spelling of the same seed")
    else:
        ctx.notes.append("regenerate from the seed")
