"""C10 — zone transactions match a reference model and are all-or-nothing."""

import copy

import dns.btreezone
import dns.exception
import dns.name
import dns.rdataclass
import dns.rdataset
import dns.rdatatype
import dns.rrset
import dns.transaction
import dns.versioned
import dns.zone

from vlib import core
from vlib.gen import names as GN
from vlib.gen import rdata as GR
from vlib.gen import zones as GZ
from vlib.ref import names as RN

PROP = "C10"
LEVEL = "fault_enumeration"
RULE = (
    "random operation sequences (add / replace / delete by name, by type, by rdataset, by rdatas / delete_exact in the same "
    "forms / update_serial relative and absolute incl. RFC 1982 wrap; argument forms rrset | name,rdataset | name,ttl,rdata...; "
    "owner names relative or absolute per call; wrong class, out-of-zone owner, non-apex SOA) over a small set of owners and "
    "types (so that merges, singleton replacement, CNAME/other-data eviction and empty-node removal happen) are applied to "
    "plain, versioned and B-tree zones (relativized and absolute) and to the reference model B1; reads inside the transaction "
    "are compared after every operation, the committed zone after commit. Abort enumeration: for a sequence of k operations an "
    "exception is injected after operation i for every i in 0..k, and rollback() is called explicitly once; the zone's deep "
    "fingerprint must be unchanged and a new writer must open. Distinct by (zone class, relativize, op, arg form, name form, outcome)."
)
RULE += " " + (
    "Also: replacement transactions (writer(True)) from an empty model, with abort points."
)
ASSUMPTIONS = [
    "reference model B1 in this file (DESIGN.md Appendix B1); names inside RDATA follow the zone's relativization",
    "content comparison uses the canonical view {owner: {(type, covers): (ttl, set of rdata wire against the origin)}}",
]
REQUIRED = ["mon.replacement_transactions", "mon.op_in_txn", "mon.read_your_writes", "mon.commit_equals_model", "mon.abort_point", "mon.ended_refuses", "mon.readonly_refuses"]
BUDGET = {"quick": 45.0, "thorough": 480.0}

FACTORIES = [("plain", dns.zone.Zone), ("versioned", dns.versioned.Zone), ("btree", dns.btreezone.Zone)]
SINGLETONS = {5, 6, 39, 47}
CNAME_KIND, NEUTRAL, REGULAR = "cname", "neutral", "regular"


def shards(tier, seed):
    mult = 1 if tier == "quick" else 14
    return [{"n": 400 * mult, "abort_every": 4} for _ in range(16)]


class Marker(Exception):
    pass


# ------------------------------------------------------------------------------------------ model B1


def kind_of(rdtype, covers):
    def m(types):
        return rdtype in types or (rdtype == 46 and covers in types)

    if m({5}):
        return CNAME_KIND
    if m({47, 50, 25}):
        return NEUTRAL
    return REGULAR


class ModelReject(Exception):
    def __init__(self, exc):
        self.exc = exc


class Model:
    def __init__(self, origin):
        self.origin = tuple(origin)
        self.okey = tuple(RN.fold(l) for l in origin)
        self.z = {}  # folded abs owner -> {(rdtype, covers): [ttl, {canon wire: None}]}

    def clone(self):
        m = Model(self.origin)
        m.z = {k: {kk: [vv[0], dict(vv[1])] for kk, vv in v.items()} for k, v in self.z.items()}
        return m

    def norm(self, labels):
        """owner labels (relative or absolute) -> folded absolute key, or KeyError"""
        labels = tuple(labels)
        if labels and labels[-1] == b"":
            if not RN.is_subdomain(labels, self.origin):
                raise ModelReject(KeyError)
            full = labels
        else:
            full = labels + self.origin
            if not RN.fits(full):
                raise ModelReject(KeyError)
        return tuple(RN.fold(l) for l in full)

    def put(self, k, rdtype, covers, ttl, items):
        node = self.z.setdefault(k, {})
        node.pop((rdtype, covers), None)
        kd = kind_of(rdtype, covers)
        if node:
            if kd == CNAME_KIND:
                for kk in [x for x in node if kind_of(*x) == REGULAR]:
                    del node[kk]
            elif kd == REGULAR:
                for kk in [x for x in node if kind_of(*x) == CNAME_KIND]:
                    del node[kk]
        node[(rdtype, covers)] = [ttl, dict(items)]

    def add(self, k, rdclass, rdtype, covers, ttl, canon_list, replace, is_apex_name):
        if rdclass != 1:
            raise ModelReject(ValueError)
        if rdtype == 6 and not is_apex_name:
            raise ModelReject(ValueError)
        new = {}
        for c in canon_list:
            if rdtype in SINGLETONS and new:
                new = {}
            new.setdefault(c)
        if replace or k not in self.z or (rdtype, covers) not in self.z[k]:
            self.put(k, rdtype, covers, ttl, new)
            return
        ottl, oitems = self.z[k][(rdtype, covers)]
        items = dict(oitems)
        nttl = ttl if not items else min(ottl, ttl)
        for c in canon_list:
            if rdtype in SINGLETONS and items:
                items = {}
            items.setdefault(c)
        self.put(k, rdtype, covers, nttl, items)

    def delete_name(self, k, exact):
        if k not in self.z:
            if exact:
                raise ModelReject(dns.transaction.DeleteNotExact)
            return
        del self.z[k]

    def delete_rdataset(self, k, rdtype, covers, exact):
        if k not in self.z or (rdtype, covers) not in self.z[k]:
            if exact:
                raise ModelReject(dns.transaction.DeleteNotExact)
            return
        del self.z[k][(rdtype, covers)]
        if not self.z[k]:
            del self.z[k]

    def delete_rdatas(self, k, rdclass, rdtype, covers, canon_list, exact):
        if rdclass != 1:
            raise ModelReject(ValueError)
        if k not in self.z or (rdtype, covers) not in self.z[k]:
            if exact:
                raise ModelReject(dns.transaction.DeleteNotExact)
            return
        ttl, items = self.z[k][(rdtype, covers)]
        if exact and any(c not in items for c in canon_list):
            raise ModelReject(dns.transaction.DeleteNotExact)
        rest = {c: None for c in items if c not in set(canon_list)}
        if not rest:
            self.delete_rdataset(k, rdtype, covers, False)
        else:
            self.put(k, rdtype, covers, ttl, rest)

    def update_serial(self, value, relative, soa_serial_setter):
        if value < 0:
            raise ModelReject(ValueError)
        node = self.z.get(self.okey)
        if not node or (6, 0) not in node:
            raise ModelReject(KeyError)
        ttl, items = node[(6, 0)]
        (canon,) = list(items)
        old = int.from_bytes(canon[-20:-16], "big")
        if relative:
            if value > 2**31 - 1:
                raise ModelReject(ValueError)
            new = (old + value) % 2**32
        else:
            new = value % 2**32
        if new == 0:
            new = 1
        c2 = canon[:-20] + new.to_bytes(4, "big") + canon[-16:]
        self.put(self.okey, 6, 0, ttl, {c2: None})

    def content(self):
        return {k: {kk: (vv[0], frozenset(vv[1])) for kk, vv in v.items()} for k, v in self.z.items() if v}


# ------------------------------------------------------------------------------------------ operations


class Env:
    def __init__(self, rng, mz, relativize):
        self.rng = rng
        self.mz = mz
        self.origin = mz.origin
        self.relativize = relativize
        self.lorigin = dns.name.Name(mz.origin)
        owners = [n for n in mz.names()][:4]
        for _ in range(3):
            owners.append((GN.simple_label(rng),) + tuple(mz.origin))
        owners.append((b"sub", GN.simple_label(rng)) + tuple(mz.origin))
        self.owners = [o for o in owners if RN.fits(o)]
        self.types = ["A", "A", "TXT", "MX", "CNAME", "NS", "NSEC", "DNAME", "RRSIG", "AAAA", "KEY", "SOA"]
        self.pool = {}

    def val(self, t):
        rng = self.rng
        p = self.pool.setdefault(t, [])
        if len(p) < 4 or rng.random() < 0.15:
            for _ in range(10):
                if t == "SOA":
                    v = GZ.soa_val(rng, self.origin)
                elif t == "RRSIG":
                    v = GR.gen(rng, t, self.origin, relative_ok=False, plain_names=True)
                    # keep the covered types few so that covers keys collide
                    cov = rng.choice((1, 5, 16))
                    v = GR.Val(v.rdclass, v.rdtype, v.tname, [cov] + v.args[1:], [cov.to_bytes(2, "big") + v.parts[0][2:]] + v.parts[1:], v.tags)
                else:
                    v = GR.gen(rng, t, self.origin, relative_ok=False, plain_names=True)
                if not GR.case_variant_of_origin(v, self.origin):
                    p.append(v)
                    break
        return rng.choice(p)

    def lib_rd(self, v):
        return GR.build(GZ.norm_val(v, self.origin, self.relativize))

    def canon(self, v):
        return GR.build(v).to_digestable()

    def lib_name(self, owner, form):
        """form: 'rel' | 'abs' | 'zone' (the zone's own convention)"""
        n = dns.name.Name(owner)
        if form == "abs":
            return n
        if form == "rel":
            return n.relativize(self.lorigin)
        return n.relativize(self.lorigin) if self.relativize else n

    def gen_op(self):
        rng = self.rng
        kind = rng.choice(("add", "add", "add", "replace", "replace", "delete_name", "delete_type", "delete_rds", "delete_rdatas", "delete_exact_name",
                           "delete_exact_type", "delete_exact_rds", "update_serial", "add_wrong_class", "add_outside", "add_soa_elsewhere",
                           "add_empty", "replace_empty", "delete_empty"))
        owner = rng.choice(self.owners)
        nform = rng.choice(("rel", "abs", "zone"))
        op = {"kind": kind, "owner": owner, "nform": nform}
        if kind in ("delete_rds", "delete_exact_rds", "delete_rdatas", "delete_type", "delete_exact_type") and rng.random() < 0.5:
            # aimed at a record set the zone held before the transaction: all of it, part of it, or part of it plus a stranger
            held = [(exact, key, vals) for exact, sets in self.mz.nodes.values() for key, (ttl, vals) in sets.items() if vals and key[0] != 6]
            if held:
                exact, (rdtype, covers), vals = rng.choice(held)
                op["owner"] = exact
                if kind in ("delete_type", "delete_exact_type"):
                    op.update(rdtype=rdtype, covers=covers, tform=rng.choice(("int", "str")))
                    return op
                pick = [v for v in vals if rng.random() < 0.6] or [vals[0]]
                if rng.random() < 0.3 and vals[0].tname in self.types:
                    stranger = self.val(vals[0].tname)
                    if vals[0].tname != "RRSIG" or stranger.args[0] == covers:
                        pick.append(stranger)
                op.update(vals=pick, aform=rng.choice(("rrset", "name_rds")) if kind != "delete_rdatas" else "name_rdatas")
                return op
        if kind in ("add", "replace"):
            t = rng.choice(self.types)
            vals = [self.val(t) for _ in range(rng.choice((1, 1, 2, 3)))]
            if t == "SOA":
                op["owner"] = tuple(self.origin)
                vals = vals[:1]
            if t == "RRSIG":
                vals = [v for v in vals if v.args[0] == vals[0].args[0]]
            op.update(vals=vals, ttl=rng.choice((0, 60, 300, 3600, 2**31 - 1)), aform=rng.choice(("rrset", "name_rds", "name_ttl_rdatas")))
        elif kind in ("delete_type", "delete_exact_type", "add_empty", "replace_empty", "delete_empty"):
            # (the *_empty forms hand over a record set that holds no records: deleting nothing changes nothing; adding or
            # replacing with nothing is refused with ValueError, as the RRset spelling always was; an empty set is never stored)
            t = rng.choice([x for x in self.types if x != "SOA"]) if kind.endswith("_empty") else rng.choice(self.types)
            v = self.val(t)
            op.update(rdtype=v.rdtype, covers=(v.args[0] if t == "RRSIG" else 0), tform=rng.choice(("int", "str")), aform=rng.choice(("rrset", "name_rds")))
        elif kind in ("delete_rds", "delete_exact_rds", "delete_rdatas"):
            t = rng.choice(self.types)
            vals = [self.val(t) for _ in range(rng.choice((1, 1, 2)))]
            if t == "RRSIG":
                vals = [v for v in vals if v.args[0] == vals[0].args[0]]
            op.update(vals=vals, aform=rng.choice(("rrset", "name_rds")) if kind != "delete_rdatas" else "name_rdatas")
        elif kind == "update_serial":
            op.update(value=rng.choice((1, 1, 2, 0, 2**31 - 1, 2**31, 2**32 - 1, 2**32, -1, rng.randrange(2**32))), relative=rng.random() < 0.6)
        elif kind == "add_wrong_class":
            op.update(vals=[self.val("TXT")], ttl=300)
        elif kind == "add_outside":
            op.update(vals=[self.val("A")], ttl=300, owner=(b"www", b"outside-zz9", b""), nform="abs")
        elif kind == "add_soa_elsewhere":
            o = rng.choice([x for x in self.owners if tuple(RN.fold(l) for l in x) != tuple(RN.fold(l) for l in self.origin)] or [(b"x",) + tuple(self.origin)])
            op.update(vals=[self.val("SOA")], ttl=300, owner=o)
        return op


def describe_op(op):
    d = {k: v for k, v in op.items() if k not in ("vals", "owner")}
    d["owner"] = RN.to_text(op["owner"])
    if "vals" in op:
        d["vals"] = [f"{v.tname}" for v in op["vals"]]
    return d


def make_rds(env, vals, ttl, rdclass=dns.rdataclass.IN):
    first = env.lib_rd(vals[0])
    rds = dns.rdataset.Rdataset(rdclass, first.rdtype, first.covers(), ttl)
    for v in vals:
        rd = env.lib_rd(v)
        if rdclass != dns.rdataclass.IN:
            rd = dns.rdata.from_wire(rdclass, rd.rdtype, rd.to_wire(origin=env.lorigin), 0, len(rd.to_wire(origin=env.lorigin)))
        rds.add(rd, ttl)
    rds.ttl = ttl
    return rds


def apply_lib(env, txn, op):
    k = op["kind"]
    name = env.lib_name(op["owner"], op["nform"])
    if k in ("add", "replace", "add_outside", "add_soa_elsewhere"):
        fn = txn.replace if k == "replace" else txn.add
        rds = make_rds(env, op["vals"], op["ttl"])
        af = op.get("aform", "name_rds")
        if af == "rrset":
            rr = dns.rrset.RRset(name, rds.rdclass, rds.rdtype, rds.covers)
            rr.update(rds)
            rr.ttl = rds.ttl
            fn(rr)
        elif af == "name_rds":
            fn(name, rds)
        elif len(rds) == 1:
            fn(name, op["ttl"], rds[0])
        else:
            fn(name, rds)  # the (name, ttl, rdata) form takes exactly one rdata
    elif k == "add_wrong_class":
        txn.add(name, make_rds(env, op["vals"], op["ttl"], dns.rdataclass.CH))
    elif k in ("delete_name", "delete_exact_name"):
        (txn.delete_exact if "exact" in k else txn.delete)(name)
    elif k in ("delete_type", "delete_exact_type"):
        fn = txn.delete_exact if "exact" in k else txn.delete
        t = op["rdtype"] if op["tform"] == "int" else dns.rdatatype.to_text(op["rdtype"])
        if op["covers"]:
            fn(name, t, op["covers"])
        else:
            fn(name, t)
    elif k in ("delete_rds", "delete_exact_rds", "delete_rdatas"):
        fn = txn.delete_exact if "exact" in k else txn.delete
        rds = make_rds(env, op["vals"], 0)
        if op["aform"] == "rrset":
            rr = dns.rrset.RRset(name, rds.rdclass, rds.rdtype, rds.covers)
            rr.update(rds)
            fn(rr)
        elif op["aform"] == "name_rds":
            fn(name, rds)
        elif len(rds) == 1:
            fn(name, rds[0])
        else:
            fn(name, rds)
    elif k in ("add_empty", "replace_empty", "delete_empty"):
        fn = {"add_empty": txn.add, "replace_empty": txn.replace, "delete_empty": txn.delete}[k]
        if op["aform"] == "rrset":
            fn(dns.rrset.RRset(name, dns.rdataclass.IN, op["rdtype"], op["covers"]))
        else:
            fn(name, dns.rdataset.Rdataset(dns.rdataclass.IN, op["rdtype"], op["covers"], 300))
    elif k == "update_serial":
        txn.update_serial(op["value"], op["relative"])


def apply_model(env, model, op):
    k = op["kind"]
    if k == "update_serial":
        model.update_serial(op["value"], op["relative"], None)
        return
    key = model.norm(op["owner"])
    is_apex = key == model.okey
    if k in ("add", "replace", "add_outside", "add_soa_elsewhere", "add_wrong_class"):
        v0 = op["vals"][0]
        covers = v0.args[0] if v0.tname == "RRSIG" else 0
        rdclass = 3 if k == "add_wrong_class" else 1
        model.add(key, rdclass, v0.rdtype, covers, op["ttl"], [env.canon(v) for v in op["vals"]], k == "replace", is_apex)
    elif k in ("delete_name", "delete_exact_name"):
        model.delete_name(key, "exact" in k)
    elif k == "delete_empty":
        pass  # nothing named, nothing deleted (in particular not the whole name)
    elif k in ("add_empty", "replace_empty"):
        raise ModelReject(ValueError)  # a record set without records cannot be stored
    elif k in ("delete_type", "delete_exact_type"):
        model.delete_rdataset(key, op["rdtype"], op["covers"], "exact" in k)
    else:
        v0 = op["vals"][0]
        covers = v0.args[0] if v0.tname == "RRSIG" else 0
        vals = op["vals"][-1:] if v0.rdtype in SINGLETONS else op["vals"]  # a singleton rdataset built from several records holds the last
        model.delete_rdatas(key, 1, v0.rdtype, covers, [env.canon(v) for v in vals], "exact" in k)


def txn_content(env, txn):
    out = {}
    for name, rds in txn.iterate_rdatasets():
        absn = name.derelativize(env.lorigin)
        k = tuple(RN.fold(l) for l in absn.labels)
        out.setdefault(k, {})[(int(rds.rdtype), int(rds.covers))] = (rds.ttl, frozenset(rd.to_digestable(env.lorigin) for rd in rds))
    return out


def deep_fingerprint(z):
    c = GZ.content_of_lib_zone(z)
    extra = None
    if isinstance(z, dns.versioned.Zone):
        extra = tuple(v.id for v in z._versions) if hasattr(z, "_versions") else None
    return (c, extra)


def initial_model(env, mz):
    m = Model(mz.origin)
    for k, (exact, sets) in mz.nodes.items():
        for (rdtype, covers), (ttl, vals) in sets.items():
            if vals:
                m.z.setdefault(k, {})[(rdtype, covers)] = [ttl, {env.canon(v): None for v in vals}]
    return m


def run_sequence(ctx, env, zname, factory, relativize, mz, ops, abort_at=None, explicit_rollback=False, replacement=False):
    """returns True if everything matched.  replacement: the transaction is opened with writer(True) (what a reload or an AXFR
    uses): it starts from NOTHING, and what it holds at commit is the whole zone"""
    z = GZ.build_lib_zone(mz, relativize, zone_factory=factory)
    model = initial_model(env, mz)
    case = {"kind": "seq", "zone": zname, "relativize": relativize, "ops": [describe_op(o) for o in ops], "abort_at": abort_at, "zone_text": GZ.mz_to_text(mz)}
    tag = f"{zname}:{'rel' if relativize else 'abs'}"
    before = deep_fingerprint(z)
    if before[0] != model.content():
        ctx.violation(f"harness-initial-zone-differs-from-model:{tag}", "", case)
        return False
    committed_model = model.clone()
    if replacement:
        model = Model(mz.origin)
        tag += ":replacement"
        case["replacement"] = True
        ctx.count("mon.replacement_transactions")
    try:
        txn = z.writer(True) if replacement else z.writer()
        try:
            with txn:
                for i, op in enumerate(ops):
                    if abort_at is not None and i == abort_at:
                        if explicit_rollback:
                            txn.rollback()
                            break
                        raise Marker()
                    ctx.count("mon.op_in_txn")
                    want_exc = None
                    trial = model.clone()
                    try:
                        apply_model(env, trial, op)
                    except ModelReject as r:
                        want_exc = r.exc
                    got_exc = None
                    try:
                        apply_lib(env, txn, op)
                    except (dns.exception.DNSException, ValueError, KeyError) as e:
                        got_exc = e
                    ctx.seen((zname, relativize, op["kind"], op.get("aform"), op["nform"], type(got_exc).__name__ if got_exc else "ok"))
                    if want_exc is None and got_exc is not None:
                        ctx.violation(f"op-raised-but-model-accepts:{op['kind']}:{op['nform']}-name:{type(got_exc).__name__}:{tag}", f"op {i} {describe_op(op)}: {got_exc!r}", case)
                        return False
                    if want_exc is not None and got_exc is None:
                        ctx.violation(f"op-accepted-but-model-rejects:{op['kind']}:{want_exc.__name__}:{tag}", f"op {i} {describe_op(op)}", case)
                        return False
                    if want_exc is not None and not isinstance(got_exc, want_exc):
                        ctx.violation(f"op-raised-wrong-exception:{op['kind']}:{type(got_exc).__name__}-instead-of-{want_exc.__name__}:{tag}", f"op {i} {describe_op(op)}: {got_exc!r}", case)
                        return False
                    if want_exc is None:
                        model = trial
                    # reads inside the transaction see its own writes
                    ctx.count("mon.read_your_writes")
                    got = txn_content(env, txn)
                    if got != model.content():
                        ctx.violation(f"reads-in-txn-differ-from-model:{op['kind']}:{tag}", f"after op {i} {describe_op(op)}: {diff(got, model.content())}", case)
                        return False
                    # point reads: get / name_exists / get_node
                    probe = env.rng.choice(env.owners)
                    pk = tuple(RN.fold(l) for l in probe)
                    pn = env.lib_name(probe, env.rng.choice(("rel", "abs", "zone")))
                    if txn.name_exists(pn) != (pk in model.z and bool(model.z[pk])):
                        ctx.violation(f"name_exists-differs-from-model:{tag}", f"after op {i}: {probe!r}", case)
                        return False
                    node = txn.get_node(pn)
                    if (node is not None and len(node) > 0) != (pk in model.z and bool(model.z[pk])):
                        ctx.violation(f"get_node-differs-from-model:{tag}", f"after op {i}: {probe!r}", case)
                        return False
                    for (rdtype, covers), (ttl, items) in list(model.z.get(pk, {}).items())[:2]:
                        rds = txn.get(pn, rdtype, covers)
                        if rds is None or rds.ttl != ttl or frozenset(rd.to_digestable(env.lorigin) for rd in rds) != frozenset(items):
                            ctx.violation(f"get-differs-from-model:{tag}", f"after op {i}: {probe!r} {rdtype}", case)
                            return False
                    if not replacement and txn.changed() is False and got != committed_model.content():
                        ctx.violation(f"changed-false-although-content-changed:{tag}", f"after op {i}", case)
                        return False
                else:
                    if abort_at is not None and abort_at == len(ops):
                        if explicit_rollback:
                            txn.rollback()
                        else:
                            raise Marker()
        except Marker:
            pass
        # ended transactions refuse further use
        ctx.count("mon.ended_refuses")
        for nm, fn in (("get", lambda: txn.get(env.lib_name(env.owners[0], "zone"), "A")), ("add", lambda: txn.add(env.lib_name(env.owners[0], "zone"), 300, env.lib_rd(env.val("A")))),
                       ("delete", lambda: txn.delete(env.lib_name(env.owners[0], "zone"))), ("name_exists", lambda: txn.name_exists(env.lib_name(env.owners[0], "zone"))),
                       ("iterate", lambda: list(txn.iterate_rdatasets())), ("iterate_names", lambda: list(txn.iterate_names())), ("changed", txn.changed),
                       ("commit", txn.commit), ("rollback", txn.rollback), ("update_serial", txn.update_serial), ("get_node", lambda: txn.get_node(env.lib_name(env.owners[0], "zone")))):
            try:
                fn()
                ctx.violation(f"ended-transaction-usable:{nm}", tag, case)
            except dns.transaction.AlreadyEnded:
                pass
            except Exception as e:
                ctx.violation(f"ended-transaction-wrong-exception:{nm}:{type(e).__name__}", repr(e), case)
        after = deep_fingerprint(z)
        if abort_at is not None:
            ctx.count("mon.abort_point")
            if after != before:
                how = "rollback()" if explicit_rollback else "exception"
                ctx.violation(f"aborted-transaction-changed-zone:{how}:{tag}", f"abort after op {abort_at} of {len(ops)}: {diff(after[0], before[0])} versions {before[1]}->{after[1]}", case)
                return False
            # a new writer must open and work
            with z.writer() as t2:
                t2.add(env.lib_name(env.owners[0], "zone"), 300, env.lib_rd(env.val("A")))
        else:
            ctx.count("mon.commit_equals_model")
            if replacement and not model.content():
                # (a replacement transaction that stored nothing is ended as if rolled back: arguable either way, not judged)
                return True
            if after[0] != model.content():
                ctx.violation(f"committed-zone-differs-from-model:{tag}", diff(after[0], model.content()), case)
                return False
            # read-only transactions refuse mutation
            ctx.count("mon.readonly_refuses")
            with z.reader() as r:
                for nm, fn in (("add", lambda: r.add(env.lib_name(env.owners[0], "zone"), 300, env.lib_rd(env.val("A")))), ("replace", lambda: r.replace(env.lib_name(env.owners[0], "zone"), 300, env.lib_rd(env.val("A")))),
                               ("delete", lambda: r.delete(env.lib_name(env.owners[0], "zone"))), ("delete_exact", lambda: r.delete_exact(env.lib_name(env.owners[0], "zone")))):
                    try:
                        fn()
                        ctx.violation(f"reader-accepts-mutation:{nm}", tag, case)
                    except dns.transaction.ReadOnly:
                        pass
                    except Exception as e:
                        ctx.violation(f"reader-mutation-wrong-exception:{nm}:{type(e).__name__}", repr(e), case)
                if txn_content(env, r) != model.content():
                    ctx.violation(f"reader-content-differs-from-model:{tag}", "", case)
        return True
    except Exception as e:
        ctx.violation(f"sequence-raised:{tag}:" + core.exc_sig(e), f"{e!r}", case)
        return False


def diff(a, b):
    out = []
    for k in sorted(set(a) | set(b), key=lambda x: x):
        if a.get(k) != b.get(k):
            ka, kb = a.get(k, {}), b.get(k, {})
            for t in set(ka) | set(kb):
                if ka.get(t) != kb.get(t):
                    out.append(f"{RN.to_text(k)} {t}: lib={'-' if t not in ka else (ka[t][0], len(ka[t][1]))} model={'-' if t not in kb else (kb[t][0], len(kb[t][1]))}")
    return "; ".join(out[:6])


def run(spec, ctx):
    rng = ctx.rng
    for i in range(spec["n"]):
        if ctx.expired(1.0):
            break
        mz = GZ.gen_zone(rng, plain=True, size=rng.choice((0, 2, 5)), types=["A", "TXT", "MX", "AAAA", "NSEC", "KEY", "RRSIG", "TXT", "A"], delegations=rng.random() < 0.3)
        for _exact, _sets in mz.nodes.values():
            _sets.pop((46, 5), None)  # RRSIG(CNAME) is CNAME-like: it would evict its neighbours while the zone is being built
        relativize = rng.random() < 0.5
        env = Env(rng, mz, relativize)
        ops = [env.gen_op() for _ in range(rng.randint(1, 10))]
        ctx.count("evaluations")
        if i < 1:
            ctx.sample({"ops": [describe_op(o) for o in ops], "origin": RN.to_text(mz.origin), "relativize": relativize})
        for zname, factory in FACTORIES:
            ok = run_sequence(ctx, env, zname, factory, relativize, mz, ops)
            if ok and i % 2 == 0:
                run_sequence(ctx, env, zname, factory, relativize, mz, ops, replacement=True)
                if i % 6 == 0:
                    run_sequence(ctx, env, zname, factory, relativize, mz, ops, abort_at=rng.randint(0, len(ops)), replacement=True)
            if ok and i % spec["abort_every"] == 0:
                for a in range(len(ops) + 1):
                    run_sequence(ctx, env, zname, factory, relativize, mz, ops, abort_at=a)
                run_sequence(ctx, env, zname, factory, relativize, mz, ops, abort_at=rng.randint(0, len(ops)), explicit_rollback=True)
                ctx.count("exhaustive.sequences_with_every_abort_index")


def replay(case, ctx):
    ctx.notes.append("operation sequences hold generated record objects: rerun the tier with the recorded seed")
