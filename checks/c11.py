"""C11 — versioned-zone readers see one immutable snapshot; version retention is sound."""

import dns.btreezone
import dns.exception
import dns.name
import dns.node
import dns.rdata
import dns.rdataset
import dns.rdatatype
import dns.versioned
import dns.zone

from vlib import core
from vlib.gen import names as GN
from vlib.gen import rdata as GR
from vlib.gen import zones as GZ
from vlib.ref import names as RN

PROP = "C11"
LEVEL = "exploration"
RULE = (
    "single-threaded histories over dns.versioned.Zone and dns.btreezone.Zone: open reader (latest / by id / by serial, also for "
    "pruned and never-issued ids), close reader, writer commit with random edits / rollback / no-op commit, set_max_versions(k|None), "
    "set_pruning_policy(custom deterministic policies / None). After every step every open reader is read out completely and compared "
    "with the fingerprint taken when it was opened and with the reference content of that version; the retained set is observed through "
    "reader(id=i) for every id ever issued and compared with the retention model B2; periodically every object reachable from a snapshot "
    "is attacked with every mutator found by introspection. Distinct by (zone class, step kind, outcome, |retained|, |pinned|)."
)
RULE += " " + (
    "Also (interleaved part): readers and writers as real threads under the deterministic scheduler with yield injection between statements of dns.versioned; whenever the zone's lock is free every open reader's version is among the retained ones and version ids strictly increase; each reader reads one committed value for its whole life. Distinct by schedule trace prefix. B-tree zones of 300-600 names with held readers while names are deleted and added."
)
ASSUMPTIONS = [
    "retention model B2 (DESIGN.md Appendix B2): prune from the oldest while id < min(pinned or newest) and policy(len, id) says so",
    "pruning policies used are pure functions of (number of retained versions, version id)",
]
REQUIRED = ["mon.big_btree_snapshot_drills", "mon.interleaved_histories", "mon.interleaved_retention_checks", "mon.fresh_zone_snapshot", "mon.source_object_mutated_after_commit", "mon.reader_snapshot_stable", "mon.retained_set", "mon.version_ids", "mon.mutator_attack", "mon.serial_lookup"]
BUDGET = {"quick": 40.0, "thorough": 420.0}

MUTATOR_NAMES = ["add", "update", "clear", "pop", "popitem", "remove", "discard", "append", "extend", "insert", "setdefault", "__setitem__", "__delitem__",
                 "replace_rdataset", "delete_rdataset", "union_update", "intersection_update", "difference_update", "symmetric_difference_update",
                 "update_ttl", "__ior__", "__iand__", "__isub__", "__ixor__", "__iadd__", "sort", "reverse", "delete_node", "put_rdataset", "find_rdataset",
                 "get_rdataset", "delete", "replace", "delete_exact", "update_serial", "add_unicode", "make_immutable", "make_mutable", "_put_rdataset", "_delete_name",
                 "_delete_rdataset", "delete_key", "insert_key", "insert_element"]


def shards(tier, seed):
    mult = 1 if tier == "quick" else 24
    return [{"n": 30 * mult, "steps": 40} for _ in range(16)]


POLICIES = [
    ("default", None, lambda n, vid: True),
    ("max1", 1, None), ("max2", 2, None), ("max3", 3, None), ("max5", 5, None), ("unlimited", "none", lambda n, vid: False),
    ("keep-multiples-of-3", lambda zone, v: v.id % 3 != 0, lambda n, vid: vid % 3 != 0),
    ("keep-at-least-2", lambda zone, v: len(zone._versions) > 2, lambda n, vid: n > 2),
    ("even-ids-only", lambda zone, v: v.id % 2 == 0, lambda n, vid: vid % 2 == 0),
]


def readout(txn, origin, btree):
    out = {}
    for name, rds in txn.iterate_rdatasets():
        absn = name.derelativize(origin)
        k = tuple(RN.fold(l) for l in absn.labels)
        out.setdefault(k, {})[(int(rds.rdtype), int(rds.covers))] = (rds.ttl, frozenset(rd.to_digestable(origin) for rd in rds))
    names = set()
    for name in txn.iterate_names():
        names.add(tuple(RN.fold(l) for l in name.derelativize(origin).labels))
        node = txn.get_node(name)
        if node is None:
            return ("ERR", "iterate_names yields a name get_node cannot find")
        for rds in node.rdatasets:
            g = txn.get(name, rds.rdtype, rds.covers)
            if g is None or frozenset(rd.to_digestable(origin) for rd in g) != out[tuple(RN.fold(l) for l in name.derelativize(origin).labels)][(int(rds.rdtype), int(rds.covers))][1]:
                return ("ERR", "get() disagrees with iterate_rdatasets()")
    extra = None
    if btree:
        v = txn.version
        extra = (tuple(sorted((tuple(RN.fold(l) for l in n.derelativize(origin).labels), int(node.flags)) for n, node in v.nodes.items())),
                 tuple(sorted(tuple(RN.fold(l) for l in n.derelativize(origin).labels) for n in v.delegations)))
    return (out, frozenset(names), extra)


def attack_snapshot(ctx, txn, origin, btree, pool, tag, case):
    """try every mutator reachable from the snapshot; nothing may change"""
    before = readout(txn, origin, btree)
    version = txn.version
    objs = [("version", version), ("nodes", version.nodes)]
    if btree:
        objs.append(("delegations", version.delegations))
    some_name = None
    for name in list(txn.iterate_names())[:3]:
        some_name = name
        node = txn.get_node(name)
        objs.append(("node", node))
        raw = version.nodes.get(name)
        if raw is not None:
            objs.append(("rawnode", raw))
            objs.append(("rdatasets", raw.rdatasets))
            for rds in list(raw.rdatasets)[:2]:
                objs.append(("rdataset", rds))
                for rd in list(rds)[:1]:
                    objs.append(("rdata", rd))
        for rds in list(node.rdatasets)[:1]:
            objs.append(("txn-rdataset", txn.get(name, rds.rdtype, rds.covers)))
    objs.append(("txn", txn))
    rng = ctx.rng
    for what, obj in objs:
        # attribute assignment / deletion
        for attr in [a for a in dir(obj) if not a.startswith("__")][:40]:
            try:
                old = getattr(obj, attr)
            except Exception:
                continue
            if callable(old):
                continue
            if what in ("txn", "nodes", "delegations", "rdatasets"):
                # containers: their *methods* are the public mutators (attacked below); rebinding the internals of a
                # BTree/dict object by attribute assignment is not a public mutator
                continue
            ctx.count("mon.mutator_attack")
            try:
                setattr(obj, attr, old if rng.random() < 0.3 else None)
                # re-binding to the same object is harmless; None must have been refused or harmless
            except Exception:
                pass
            try:
                if getattr(obj, attr) is not old:
                    try:
                        object.__setattr__(obj, attr, old)  # restore for the remaining checks
                    except Exception:
                        pass
                    ctx.violation(f"snapshot-attribute-rebound:{tag}:{what}.{attr}", "", case)
                    return
            except Exception:
                pass
        for m in MUTATOR_NAMES:
            fn = getattr(obj, m, None)
            if fn is None or not callable(fn):
                continue
            rd = rng.choice(pool)
            rds = dns.rdataset.from_rdata(5, rd)
            argsets = [(), (rd,), (rds,), (some_name,), (some_name, rds), (some_name, rd), (0,), (some_name, rd.rdtype), (rd.rdclass, rd.rdtype), (some_name, 5, rd), (0, rd), (rds, rds), (1,), ("x",),
                       (rd.rdclass, rd.rdtype, 0, True), (some_name, node if some_name else None)]
            if hasattr(obj, "get_element"):
                # B-tree maps and sets: the element object that is stored (what delete_exact / insert_element take)
                try:
                    elem = obj.get_element(some_name)
                    if elem is None:
                        elem = next(iter(obj), None) and obj.get_element(next(iter(obj)))
                    if elem is not None:
                        argsets.append((elem,))
                except Exception:
                    pass
            for args in argsets:
                ctx.count("mon.mutator_attack")
                try:
                    fn(*args)
                except BaseException as e:
                    if isinstance(e, (KeyboardInterrupt, core.CaseTimeout)):
                        raise
    after = readout(txn, origin, btree)
    if after != before:
        ctx.violation(f"snapshot-changed-by-mutator-attack:{tag}", "content/flags of the snapshot differ after the attack", case)


def run_history(ctx, rng, zname, factory, steps):
    ctx.count("evaluations")
    btree = zname == "btree"
    mz = GZ.gen_zone(rng, plain=True, size=rng.choice((1, 3)), types=["A", "TXT", "MX"], delegations=btree and rng.random() < 0.5)
    relativize = rng.random() < 0.5
    origin = dns.name.Name(mz.origin)
    z = GZ.build_lib_zone(mz, relativize, zone_factory=factory)
    case = {"kind": "history", "zone": zname, "relativize": relativize, "steps": []}
    tag = zname
    # a reader opened on a brand-new zone holds a snapshot as well (the empty initial version): nothing reachable may change it
    ctx.count("mon.fresh_zone_snapshot")
    zf = factory(origin, relativize=relativize)
    fresh_name = dns.name.Name((b"fresh",)) if relativize else dns.name.Name((b"fresh",) + tuple(mz.origin))
    fresh_rds = dns.rdataset.from_text("IN", "A", 300, "10.0.0.1")
    with zf.reader() as t0:
        for what, attempt in (("zone.nodes[name] = Node()", lambda: zf.nodes.__setitem__(fresh_name, dns.node.Node())),
                              ("version.put_rdataset", lambda: t0.version.put_rdataset(fresh_name, fresh_rds)),
                              ("version.nodes[name] = Node()", lambda: t0.version.nodes.__setitem__(fresh_name, dns.node.Node())),
                              ("zone.find_node(create=True)", lambda: zf.find_node(fresh_name, create=True))):
            try:
                attempt()
                raised = False
            except Exception:
                raised = True
            if list(t0.iterate_names()) or not raised:
                ctx.violation(f"initial-version-of-new-zone-is-mutable:{tag}", f"{what}: {'raised' if raised else 'did not raise'}; reader now sees {list(t0.iterate_names())}", case)
                break
    # model
    first_id = z._versions[-1].id if hasattr(z, "_versions") else None
    with z.reader() as r0:
        cur = readout(r0, origin, btree)
        first_id = r0.version.id
    V = [first_id]
    contents = {first_id: cur}
    serials = {}
    issued = {first_id}

    def serial_of(content):
        soa = content[0].get(tuple(RN.fold(l) for l in mz.origin), {}).get((6, 0))
        if soa is None:
            return None
        (w,) = list(soa[1])
        return int.from_bytes(w[-20:-16], "big")

    serials[first_id] = serial_of(cur)
    R = []  # list of (txn, id, fingerprint)
    pol_name, pol_lib, P = POLICIES[0]
    pool = [GR.build(GZ.norm_val(GR.gen(rng, t, mz.origin, relative_ok=False, plain_names=True), mz.origin, relativize)) for t in ("A", "A", "TXT", "MX", "A", "TXT")]
    owners = [dns.name.Name((GN.simple_label(rng),) + tuple(mz.origin)) for _ in range(4)]
    if btree:
        # names beneath two of the owners, and NS records in the pool: cuts come and go above existing names, which makes the
        # B-tree zone re-flag (copy) nodes the transaction did not otherwise write
        owners += [dns.name.Name((b"below",) + o.labels) for o in owners[:2]] + [dns.name.Name((b"deep", b"below") + owners[0].labels)]
        pool += [dns.rdata.from_text("IN", "NS", "ns1.elsewhere."), dns.rdata.from_text("IN", "NS", "ns2.elsewhere."), dns.rdata.from_text("IN", "NS", "ns1.elsewhere.")]

    def prune():
        k = min(i for _, i, _ in R) if R else V[-1]
        while V[0] < k and P(len(V), V[0]):
            V.pop(0)

    def lname(n):
        return n.relativize(origin) if relativize else n

    for step in range(steps):
        kind = rng.choice(("open_latest", "open_latest", "open_id", "open_serial", "close", "close", "commit", "commit", "commit", "rollback", "noop_commit", "policy", "attack"))
        case["steps"].append(kind)
        try:
            if kind == "open_latest":
                t = z.reader()
                fp = readout(t, origin, btree)
                if t.version.id != V[-1]:
                    ctx.violation(f"latest-reader-not-on-newest-version:{tag}", f"{t.version.id} vs {V[-1]}", case)
                    return
                R.append((t, t.version.id, fp))
            elif kind == "open_id":
                i = rng.choice(sorted(issued) + [max(issued) + 1, 0])
                try:
                    t = z.reader(id=i)
                    if i not in V:
                        ctx.violation(f"reader-opened-on-unretained-id:{tag}", f"id {i} retained model {V}", case)
                        return
                    R.append((t, i, readout(t, origin, btree)))
                except KeyError:
                    if i in V:
                        ctx.violation(f"reader-refused-on-retained-id:{tag}", f"id {i} retained model {V}", case)
                        return
            elif kind == "open_serial":
                ctx.count("mon.serial_lookup")
                cand = [s for s in serials.values() if s is not None] + [12345, 0]
                s = rng.choice(cand)
                want = next((i for i in reversed(V) if serials.get(i) == s), None)
                try:
                    t = z.reader(serial=s)
                    if want is None or t.version.id != want:
                        ctx.violation(f"reader-by-serial-wrong-version:{tag}", f"serial {s}: got id {t.version.id}, model {want} (retained {V})", case)
                        return
                    R.append((t, want, readout(t, origin, btree)))
                except KeyError:
                    if want is not None:
                        ctx.violation(f"reader-by-serial-refused:{tag}", f"serial {s} model id {want}", case)
                        return
            elif kind == "close":
                if R:
                    t, i, fp = R.pop(rng.randrange(len(R)))
                    if rng.random() < 0.5:
                        t.rollback()
                    else:
                        t.commit()
                    prune()
            elif kind in ("commit", "rollback", "noop_commit"):
                w = z.writer()
                changed = False
                sources = []
                if kind != "noop_commit":
                    for _ in range(rng.randint(1, 3)):
                        o = lname(rng.choice(owners))
                        rd = rng.choice(pool)
                        r2 = rng.random()
                        if r2 < 0.5:
                            w.add(o, rng.choice((60, 300)), rd)
                        elif r2 < 0.75:
                            # the Rdataset-object spelling: the caller keeps its object and may go on using it
                            src = dns.rdataset.from_rdata(rng.choice((60, 300)), rd)
                            (w.replace if rng.random() < 0.6 else w.add)(o, src)
                            sources.append(src)
                        else:
                            w.delete(o)
                    r_ = rng.random()
                    if r_ < 0.7:
                        w.update_serial(rng.choice((1, 1, 2)))
                    elif r_ < 0.85:
                        # an explicitly stored serial, including 0 (legal; reachable by replacing the SOA or by wrap-around on the server)
                        apex = lname(origin)
                        cur_soa = w.get(apex, "SOA")
                        if cur_soa is not None and len(cur_soa):
                            w.replace(apex, dns.rdataset.from_rdata(cur_soa.ttl, cur_soa[0].replace(serial=rng.choice((0, 0, 7, 2**32 - 1)))))
                    changed = w.changed()
                if kind == "rollback":
                    w.rollback()
                else:
                    inside = readout(w, origin, btree) if changed else None
                    w.commit()
                    if changed:
                        nid = V[-1] + 1
                        ctx.count("mon.version_ids")
                        with z.reader() as t:
                            if t.version.id != nid:
                                ctx.violation(f"version-id-not-previous-plus-one:{tag}", f"got {t.version.id} want {nid}", case)
                                return
                            contents[nid] = readout(t, origin, btree)
                            if inside is not None and contents[nid][0] != inside[0]:
                                ctx.violation(f"committed-version-differs-from-writer-view:{tag}", "", case)
                                return
                        # a committed version is detached from what the caller handed in: mutate those objects now
                        for src in sources:
                            ctx.count("mon.source_object_mutated_after_commit")
                            same = [x for x in pool if (x.rdclass, x.rdtype) == (src.rdclass, src.rdtype) and x not in src]
                            if same:
                                src.add(same[0], 1)
                            else:
                                src.update_ttl(1)
                        if sources:
                            with z.reader() as t:
                                if readout(t, origin, btree) != contents[nid]:
                                    ctx.violation(f"committed-version-changed-when-caller-mutated-its-own-rdataset:{tag}", f"version {nid}", case)
                                    return
                        V.append(nid)
                        issued.add(nid)
                        serials[nid] = serial_of(contents[nid])
                        prune()
                        # the probe reader above was opened and closed: one more prune in the library; the model's prune is idempotent
            elif kind == "policy":
                pol_name, pol_lib, P0 = rng.choice(POLICIES)
                if isinstance(pol_lib, int):
                    z.set_max_versions(pol_lib)
                    m = pol_lib
                    P = lambda n, vid, m=m: n > m
                elif pol_lib == "none":
                    z.set_max_versions(None)
                    P = P0
                else:
                    z.set_pruning_policy(pol_lib)
                    P = P0
                prune()
            elif kind == "attack" and R:
                t, i, fp = rng.choice(R)
                attack_snapshot(ctx, t, origin, btree, pool, tag, case)
        except Exception as e:
            ctx.violation(f"history-step-raised:{tag}:{kind}:" + core.exc_sig(e), repr(e), case)
            return
        try:
            ok = post_step(ctx, z, origin, btree, R, V, contents, issued, prune, tag, kind, pol_name, case)
        except Exception as e:
            ctx.violation(f"history-step-raised:{tag}:post-{kind}:" + core.exc_sig(e), repr(e), case)
            return
        if not ok:
            return
        ctx.seen((zname, kind, pol_name, min(len(V), 6), min(len(R), 4)))
    for t, i, fp in R:
        try:
            t.rollback()
        except Exception as e:
            ctx.violation(f"history-step-raised:{tag}:final-close:" + core.exc_sig(e), repr(e), case)
            return


def post_step(ctx, z, origin, btree, R, V, contents, issued, prune, tag, kind, pol_name, case):
    if True:
        # (a) every open reader still sees exactly its snapshot, which is the model content of that version
        for t, i, fp in R:
            ctx.count("mon.reader_snapshot_stable")
            now = readout(t, origin, btree)
            if now != fp:
                ctx.violation(f"open-reader-snapshot-changed:{tag}:{kind}", f"reader on id {i}", case)
                return False
            if now != contents[i]:
                ctx.violation(f"reader-content-differs-from-version-content:{tag}", f"reader on id {i}", case)
                return False
        # (b) retained set through the public API
        ctx.count("mon.retained_set")
        got = []
        for i in sorted(issued):
            try:
                with z.reader(id=i):
                    got.append(i)
            except KeyError:
                pass
        prune()
        if got != V:
            ctx.violation(f"retained-versions-differ-from-model:{tag}:{pol_name}", f"after {kind}: library {got} model {V} pinned {[i for _, i, _ in R]}", case)
            return False
        # declarative cross-checks independent of the loop
        if got != list(range(got[0], got[-1] + 1)):
            ctx.violation(f"retained-versions-not-contiguous:{tag}", f"{got}", case)
            return False
        if R and min(i for _, i, _ in R) < got[0]:
            ctx.violation(f"pinned-version-pruned:{tag}", f"{got} pinned {[i for _, i, _ in R]}", case)
            return False
    return True


def interleaved_history(ctx, rng, inj, zname, factory):
    """readers and writers as threads under the deterministic scheduler (vlib.mon.sched), switching at the zone's lock and event
    operations and at injected points between statements of dns.versioned.  Whenever the zone's lock is free: every open reader's
    version is among the retained ones, ids are strictly increasing, the newest is retained; each reader reads the same counter
    value for its whole life, and that value is one that was committed no later than the moment reader() returned"""
    from vlib.mon import sched as S

    ctx.count("evaluations")
    ctx.count("mon.interleaved_histories")
    strategy = S.RandomStrategy(rng, stay=rng.choice((0.3, 0.6, 0.85))) if rng.random() < 0.6 else S.PCTStrategy(rng, 5, depth=rng.choice((1, 2, 3)), horizon=rng.choice((50, 300)))
    line_p = rng.choice((0.05, 0.2, 0.5, 1.0))
    pol = rng.choice(("default", "max2", "unlimited"))
    nw, nr = rng.randint(1, 3), rng.randint(1, 4)
    case = {"kind": "interleaved", "zone": zname, "policy": pol, "writers": nw, "readers": nr, "line_p": line_p}
    tag = f"{zname}:interleaved"
    sc = S.Scheduler(strategy, max_steps=40000)
    shim = S.ShimThreading(sc)
    saved = dns.versioned.threading
    dns.versioned.threading = shim
    counter_name = dns.name.from_text("counter", None)
    open_readers = {}  # rid -> (txn, value first read)
    bad = []

    def value(txn):
        rds = txn.get(counter_name, "TXT")
        return None if rds is None else int(rds[0].strings[0])

    try:
        z = factory(dns.name.from_text("example."))
        if pol == "max2":
            z.set_max_versions(2)
        elif pol == "unlimited":
            z.set_max_versions(None)
        with z.writer() as txn:
            txn.add(dns.name.empty, 300, dns.rdata.from_text("IN", "SOA", "ns hostmaster 1 2 3 4 5"))
            txn.add(counter_name, 0, dns.rdata.from_text("IN", "TXT", '"0"'))
        committed = [0]  # values whose commit() has returned or is in progress

        def writer(wid):
            def body():
                for k in range(rng.randint(1, 3)):
                    with z.writer() as txn:
                        v = value(txn) + 1
                        txn.replace(counter_name, 0, dns.rdata.from_text("IN", "TXT", f'"{v}"'))
                        sc.pause("client:wrote")
                        committed.append(v)
                    sc.pause("client:committed")
            return body

        def reader(rid):
            def body():
                for k in range(rng.randint(1, 3)):
                    txn = z.reader()
                    first = value(txn)
                    open_readers[(rid, k)] = (txn, first)
                    if first not in committed:
                        bad.append(("reader-saw-uncommitted-value", first, list(committed)))
                    for _ in range(rng.randint(1, 3)):
                        sc.pause("client:reading")
                        again = value(txn)
                        if again != first:
                            bad.append(("reader-snapshot-changed", first, again))
                    del open_readers[(rid, k)]
                    txn.rollback()
                    sc.pause("client:closed")
            return body

        for w in range(nw):
            sc.spawn(writer(w), f"w{w}")
        for r in range(nr):
            sc.spawn(reader(r), f"r{r}")
        inj.attach(sc, lambda: rng.random() < line_p)
        checks = [0]

        def on_step(s_):
            if bad:
                return
            locks = [v for v in vars(z).values() if isinstance(v, S.ShimLock)]
            if not locks or any(l.locked_by is not None for l in locks):
                return
            checks[0] += 1
            ids = [v.id for v in z._versions]
            if ids != sorted(set(ids)):
                bad.append(("version-ids-not-strictly-increasing", ids))
                return
            for key, (txn, first) in list(open_readers.items()):
                if not any(v is txn.version for v in z._versions):
                    bad.append(("open-reader-on-a-version-that-is-not-retained", txn.version.id, ids))
                    return

        try:
            sc.run(on_step)
        except S.Deadlock as e:
            ctx.violation(f"deadlock-or-lost-wakeup:{tag}", str(e), dict(case, choices=sc.choices[:400]))
            return
        except (S.StepLimit, S.Stall) as e:
            ctx.mark_inconclusive(f"schedule exceeded step limit: {e}")
            return
        finally:
            inj.detach()
        ctx.count("mon.interleaved_retention_checks", checks[0])
        for t in sc.threads:
            if t.exc is not None:
                ctx.violation(f"thread-raised:{tag}:" + core.exc_sig(t.exc), repr(t.exc), dict(case, choices=sc.choices[:400]))
                return
        if bad:
            ctx.violation(f"{bad[0][0]}:{tag}", f"{bad[0][1:]} policy {pol}", dict(case, choices=sc.choices[:400]))
            return
        ctx.seen(("interleaved", zname, pol) + tuple(sc.trace_key())[:12])
    finally:
        dns.versioned.threading = saved


def big_btree_snapshot_drill(ctx, rng):
    """a B-tree zone large enough for its node map to be a tree of several nodes (300-600 names): readers stay open while later
    transactions delete and add names (leaves borrow from and merge with their siblings, some of them still shared with the
    versions the readers hold); every held version keeps exactly the names and records it had"""
    ctx.count("evaluations")
    ctx.count("mon.big_btree_snapshot_drills")
    n = rng.choice((300, 420, 600))
    z = dns.btreezone.Zone(dns.name.from_text("big.example."))
    names = [dns.name.from_text(f"host{i:05d}", None) for i in range(n)]
    with z.writer() as txn:
        txn.add(dns.name.empty, 300, dns.rdata.from_text("IN", "SOA", "ns hostmaster 1 2 3 4 5"))
        txn.add(dns.name.empty, 300, dns.rdata.from_text("IN", "NS", "ns"))
        for i, nm in enumerate(names):
            txn.add(nm, 300, dns.rdata.from_text("IN", "A", f"10.{i >> 16 & 255}.{i >> 8 & 255}.{i & 255}"))
    live = set(names)
    held = []
    case = {"kind": "big-btree", "names": n}

    def snapshot(txn):
        return sorted((str(x), txn.get(x, "A")[0].to_text() if txn.get(x, "A") is not None else None) for x in txn.iterate_names())

    how = rng.choice(("ascending", "descending", "random"))
    order = sorted(live) if how == "ascending" else sorted(live, reverse=True) if how == "descending" else rng.sample(sorted(live), len(live))
    pos = 0
    for step in range(rng.randint(20, 60)):
        if len(held) < 3 and rng.random() < 0.3:
            r = z.reader()
            held.append((r, snapshot(r)))
        with z.writer() as txn:
            for _ in range(rng.randint(1, 4)):
                if pos < len(order) and rng.random() < 0.85:
                    txn.delete(order[pos])
                    live.discard(order[pos])
                    pos += 1
                else:
                    nm = dns.name.from_text(f"new{step:03d}x{rng.randrange(1000)}", None)
                    txn.add(nm, 300, dns.rdata.from_text("IN", "A", "192.0.2.1"))
                    live.add(nm)
        for r, snap in held:
            ctx.count("mon.reader_snapshot_stable")
            now = snapshot(r)
            if now != snap:
                lost = [a for a in snap if a not in now][:3]
                extra = [a for a in now if a not in snap][:3]
                ctx.violation("open-reader-snapshot-changed:btree:big-zone", f"after commit {step} ({how} deletions): lost {lost} gained {extra}", case)
                return
    for r, _ in held:
        r.rollback()


def run(spec, ctx):
    rng = ctx.rng
    from vlib.mon import sched as S

    for _ in range(2):
        big_btree_snapshot_drill(ctx, rng)

    inj = S.LineInjector().watch(dns.versioned)
    inj.install()
    try:
        for i in range(spec["n"] * 3):
            if i >= 16 and ctx.expired(0.3):  # (a minimum runs whatever the load on the machine)
                break
            zname, factory = (("versioned", dns.versioned.Zone), ("btree", dns.btreezone.Zone))[i % 2]
            interleaved_history(ctx, rng, inj, zname, factory)
    finally:
        inj.uninstall()
    for i in range(spec["n"]):
        if i >= 2 and ctx.expired(1.0):
            break
        for zname, factory in (("versioned", dns.versioned.Zone), ("btree", dns.btreezone.Zone)):
            try:
                run_history(ctx, rng, zname, factory, spec["steps"])
            except Exception as e:
                if not core.raised_in_library(e):
                    raise
                ctx.violation(f"library-raised-under-valid-use:{zname}:" + core.exc_sig(e), repr(e), None)
        if i < 1:
            ctx.sample({"policies": [p[0] for p in POLICIES], "steps_per_history": spec["steps"]})


def replay(case, ctx):
    ctx.notes.append("histories are regenerated from the seed")
