"""C12 — versioned-zone writers are serialized, FIFO and deadlock-free in every schedule."""

import random
import sys
import threading

import dns.name
import dns.rdata
import dns.rdataset
import dns.rdatatype
import dns.transaction
import dns.btreezone
import dns.versioned
import dns.zone

from vlib import core
from vlib.mon import sched as S

PROP = "C12"
LEVEL = "exploration"
RULE = (
    "2-6 writer threads (commit or rollback, some opening a second transaction) and solo readers on one dns.versioned.Zone run "
    "under a deterministic scheduler that owns the real threads: dns.versioned.threading is replaced by shim Lock/Event objects "
    "whose every operation is a scheduling point, and sys.monitoring LINE events on every function of dns.versioned plus the "
    "transaction end/setup path add line-granularity preemption. Schedules are drawn from a seeded random strategy, PCT-style "
    "priority schedules, and a bounded-exhaustive DFS over lock/event-granularity choices (3 writers, <= 2 preemptions). A schedule "
    "is distinct by its thread trace; non-trivial = at least one thread had to wait."
)
RULE += " " + (
    "Also: writers using the with-statement and leaving it through ValueError / a private BaseException / GeneratorExit / KeyboardInterrupt; replacement writers; B-tree zones; reader threads coming and going next to the writers."
)
ASSUMPTIONS = [
    "the scheduler serialises real threads, so only interleavings at the registered yield points are explored (lock/event operations, statement starts of the watched functions, explicit pauses); OS-level fairness is not modelled",
    "'started waiting' = creation of the waiter Event (done under the zone lock immediately before it is queued)",
    "an additional uncontrolled stress run with real threading checks mutual exclusion and the final state only",
]
REQUIRED = ["mon.with_block_left_through_non_Exception", "mon.histories_with_replacement_writers", "mon.histories_on_btree_zone", "mon.schedules_run_to_quiescence", "mon.mutual_exclusion", "mon.fifo_admission", "mon.final_state_serial", "mon.solo_reader", "mon.schedules_with_waiting", "mon.uncontrolled_transactions"]
BUDGET = {"quick": 45.0, "thorough": 480.0}

ORIGIN = dns.name.from_text("example.")
COUNTER = dns.name.from_text("counter", None)


def shards(tier, seed):
    mult = 1 if tier == "quick" else 48
    out = []
    for i in range(16):
        out.append({"n_random": 60 * mult, "n_pct": 40 * mult, "dfs": i < 4, "dfs_budget": 250 * mult, "dfs_variant": i, "stress": i == 15, "stress_txns": 300 * mult})
    return out


def txt(n):
    return dns.rdata.from_text("IN", "TXT", f'"{n}"')


def new_zone(opts=None):
    # the dict-backed versioned zone or its B-tree subclass (same admission code, its own way of building the next version)
    z = (dns.btreezone.Zone if opts and opts.get("zone") == "btree" else dns.versioned.Zone)(ORIGIN)
    z.set_max_versions(None)
    with z.writer() as txn:
        txn.add(dns.name.empty, 300, dns.rdata.from_text("IN", "SOA", "ns hostmaster 1 2 3 4 5"))
        txn.add(COUNTER, 0, txt(0))
    return z


def zone_state(txn):
    c = txn.get(COUNTER, "TXT")
    counter = int(c[0].strings[0]) if c is not None else None
    uniq = sorted(str(n) for n in txn.iterate_names() if str(n).startswith("u"))
    return counter, tuple(uniq)


class _Leave(BaseException):
    """how a client's with-block may be left other than by an Exception: cancellation, generator close, interpreter exit"""


def writer_body(sc, z, wid, commit, second, log, repl=False, with_exit=None):
    def body():
        for k in range(2 if second else 1):
            sc.log("call", wid)
            txn = z.writer(True) if repl else z.writer()
            sc.log("admit", wid)
            sc.pause("client:admitted")
            if with_exit is not None:
                # the context-manager spelling: leaving the block normally commits, leaving it through ANY exception ends the
                # transaction without publishing anything -- in both cases the next writer is let in
                do_commit = commit[k]
                try:
                    with txn:
                        cur = txn.get(COUNTER, "TXT")
                        old = int(cur[0].strings[0])
                        sc.pause("client:read")
                        txn.replace(COUNTER, 0, txt(old + 1))
                        sc.pause("client:wrote-counter")
                        txn.add(dns.name.from_text(f"u{wid}x{k}", None), 60, txt(wid))
                        sc.pause("client:wrote-unique")
                        sc.log("end", wid, k, do_commit)
                        if not do_commit:
                            raise {"exception": ValueError, "base": _Leave, "generator-exit": GeneratorExit, "keyboard": KeyboardInterrupt}[with_exit]()
                except (ValueError, _Leave, GeneratorExit, KeyboardInterrupt):
                    pass
                sc.log("ended", wid)
                sc.pause("client:after-end")
                continue
            try:
                if repl:
                    # a replacement transaction (a reload): starts empty; the committed zone holds only what it adds
                    txn.add(dns.name.empty, 300, dns.rdata.from_text("IN", "SOA", "ns hostmaster 1 2 3 4 5"))
                    old = 1000 * (wid + 1) - 1
                else:
                    cur = txn.get(COUNTER, "TXT")
                    old = int(cur[0].strings[0])
                sc.pause("client:read")
                txn.replace(COUNTER, 0, txt(old + 1))
                sc.pause("client:wrote-counter")
                txn.add(dns.name.from_text(f"u{wid}x{k}", None), 60, txt(wid))
                sc.pause("client:wrote-unique")
            finally:
                do_commit = commit[k]
                sc.log("end", wid, k, do_commit)
                if do_commit:
                    txn.commit()
                else:
                    txn.rollback()
            sc.log("ended", wid)
            sc.pause("client:after-end")

    return body


def check_history(ctx, sc, z, plan, case, tag, opts=None):
    """monitors over the recorded event log + final state"""
    ev = sc.events
    # Exact moments from the shim log: a writer is admitted inside its last zone-lock section before writer() returns
    # ("admit" is logged by the client afterwards), and its transaction ends inside its first lock section after the
    # client logged "end".  Waiting starts when the waiter Event is created (inside a lock section as well).
    timeline = []  # (seq, kind, tid)
    last_acq = {}
    waiting_end = {}  # tid -> True while we look for the lock section that ends its transaction
    open_intervals = []
    cur_open = {}
    for seq, e in enumerate(ev):
        kind = e[1]
        if kind == "lock_acquired":
            tid = e[2]
            last_acq[tid] = seq
            if waiting_end.get(tid):
                waiting_end[tid] = False
                timeline.append((seq, "closed", tid))
        elif kind == "event_created":
            if e[2] >= 0:
                timeline.append((seq, "wait", e[2]))
        elif kind == "admit":
            timeline.append((last_acq.get(e[2], seq) + 0.5, "admitted", e[2]))
        elif kind == "end":
            waiting_end[e[2]] = True
    timeline.sort(key=lambda x: x[0])
    open_by = None
    pending = []
    waited = set()
    ctx.count("mon.mutual_exclusion")
    ctx.count("mon.fifo_admission")
    for seq, kind, tid in timeline:
        if kind == "wait":
            if tid not in pending:
                pending.append(tid)
                waited.add(tid)
        elif kind == "admitted":
            if open_by is not None:
                ctx.violation(f"two-write-transactions-open:{tag}", f"writer {tid} admitted while writer {open_by} is open; timeline tail {timeline[-12:]}", case)
                return False
            if pending and pending[0] != tid:
                ctx.violation(f"writer-admitted-out-of-fifo-order:{tag}", f"writer {tid} admitted while waiters {pending} (by start of waiting) are pending", case)
                return False
            if pending:
                pending.pop(0)
            open_by = tid
        elif kind == "closed":
            if open_by == tid:
                open_by = None
    if waited:
        ctx.count("mon.schedules_with_waiting")
    # (4) final zone == serial application in admission order
    ctx.count("mon.final_state_serial")
    commits = []
    seq = [(e[2], e[3], e[4]) for e in ev if e[1] == "end"]
    counter = 0
    uniq = set()
    prefixes = [(0, ())]
    repl = set((opts or {}).get("repl", ()))
    for wid, k, did in seq:
        if did:
            if wid in repl:
                counter, uniq = 1000 * (wid + 1), set()
            else:
                counter += 1
            uniq.add(f"u{wid}x{k}")
            prefixes.append((counter, tuple(sorted(uniq))))
    with z.reader() as r:
        got = zone_state(r)
    if got != prefixes[-1]:
        ctx.violation(f"final-zone-not-serial-application:{tag}", f"zone {got} expected {prefixes[-1]} (end order {seq})", case)
        return False
    # every retained version i equals the i-th serial prefix (ids: 1 = empty initial, 2 = setup commit, then one per commit)
    ids = [v.id for v in z._versions] if hasattr(z, "_versions") else []
    for i, want in enumerate(prefixes):
        try:
            with z.reader(id=3 + i - 1) as r:
                st = zone_state(r)
        except KeyError:
            ctx.violation(f"committed-version-missing:{tag}", f"id {2 + i} of {ids}", case)
            return False
        if st != want:
            ctx.violation(f"version-not-serial-prefix:{tag}", f"version id {2 + i}: {st} expected {want}", case)
            return False
    return True, prefixes


def run_schedule(ctx, strategy, plan, inj, line_p, rng, tag, case, dfs=False, opts=None):
    """plan: list of (commit tuple, second flag) per writer"""
    sc = S.Scheduler(strategy, max_steps=30000)
    shim = S.ShimThreading(sc)
    saved = dns.versioned.threading
    dns.versioned.threading = shim
    solo = {"n": 0, "bad": None}
    prefixes_seen = []
    try:
        z = new_zone(opts)
        if opts:
            ctx.count("mon.histories_with_replacement_writers" if opts.get("repl") else "mon.histories_without_replacement_writers")
            ctx.count("mon.histories_on_btree_zone" if opts.get("zone") == "btree" else "mon.histories_on_dict_zone")
        for wid, (commit, second) in enumerate(plan):
            is_repl = bool(opts) and wid in opts.get("repl", ())
            we = (opts or {}).get("with_exit", {}).get(wid) if not is_repl else None
            if we is not None:
                ctx.count("mon.writers_using_with_block")
                if we != "exception" and not all(commit):
                    ctx.count("mon.with_block_left_through_non_Exception")
            sc.spawn(writer_body(sc, z, wid, commit, second, None, repl=is_repl, with_exit=we), f"w{wid}")
        # readers coming and going next to the writers (their registration and departure share the zone's lock and its
        # pruning pass with the commits)
        def reader_body(rid):
            def body():
                for k in range(2):
                    r = z.reader()
                    sc.pause("client:reading")
                    zone_state(r)
                    r.rollback()
                    sc.pause("client:read-done")
            return body

        for rid in range((opts or {}).get("readers", 0)):
            sc.spawn(reader_body(rid), f"r{rid}")
            ctx.count("mon.reader_threads_next_to_writers")
        if inj is not None:
            inj.attach(sc, (lambda: rng.random() < line_p) if line_p > 0 else (lambda: False))

        def on_step(s):
            # (5) solo reader: when some write transaction is open and every thread is parked in client code or
            # blocked on an event (the zone lock is free), a reader must complete without any other thread moving
            if solo["bad"] is not None or rng.random() > 0.15:
                return
            # the zone's lock(s) are found by type, not by attribute name; "a write transaction is open" is taken from
            # the client-side log (between a writer's "admit" and "end" entries it is certainly open)
            locks = [v for v in vars(z).values() if isinstance(v, S.ShimLock)]
            if not locks or any(l.locked_by is not None for l in locks):
                return
            open_now = False
            for e in reversed(s.events):
                if e[1] == "admit":
                    open_now = True
                    break
                if e[1] == "end":
                    break
            if not open_now:
                return
            if not all(t.finished or t.blocked or t.why.startswith("client:") for t in s.threads):
                return
            try:
                with z.reader() as r:
                    st = zone_state(r)
                solo["n"] += 1
                prefixes_seen.append(st)
            except BaseException as e:
                solo["bad"] = e

        try:
            sc.run(on_step)
            ctx.count("mon.schedules_run_to_quiescence")
        except S.Deadlock as e:
            ctx.violation(f"deadlock-or-lost-wakeup:{tag}", f"{e}; last events {sc.events[-10:]}", dict(case, choices=sc.choices[:400]))
            return sc
        except (S.StepLimit, S.Stall) as e:
            ctx.mark_inconclusive(f"schedule exceeded step limit: {e}")
            return sc
        finally:
            if inj is not None:
                inj.detach()
        for t in sc.threads:
            if t.exc is not None:
                ctx.violation(f"writer-thread-raised:{tag}:" + core.exc_sig(t.exc), repr(t.exc), dict(case, choices=sc.choices[:400]))
                return sc
        res = check_history(ctx, sc, z, plan, dict(case, choices=sc.choices[:400]), tag, opts)
        if res is False:
            return sc
        _, prefixes = res
        ctx.count("mon.solo_reader", solo["n"])
        if solo["bad"] is not None:
            ctx.violation(f"reader-needed-another-thread-or-raised:{tag}", repr(solo["bad"]), case)
        for st in prefixes_seen:
            if st not in prefixes:
                ctx.violation(f"reader-observed-partial-transaction:{tag}", f"{st} not among serial prefixes {prefixes}", case)
                break
        ctx.seen(sc.trace_key())
        return sc
    finally:
        dns.versioned.threading = saved


def gen_opts(rng, plan):
    return {"zone": rng.choice(("versioned", "versioned", "btree")), "repl": {w for w in range(len(plan)) if rng.random() < 0.2},
            "with_exit": {w: rng.choice(("exception", "base", "generator-exit", "keyboard")) for w in range(len(plan)) if rng.random() < 0.3},
            "readers": rng.choice((0, 0, 1, 2))}


def gen_plan(rng, n=None):
    n = n or rng.randint(2, 6)
    plan = []
    for _ in range(n):
        second = rng.random() < 0.25
        plan.append((tuple(rng.random() < 0.75 for _ in range(2)), second))
    return plan


def dfs_explore(ctx, inj, rng, budget, variant):
    """bounded-exhaustive DFS over lock/event-granularity choices: 3 writers, at most 2 preemptions"""
    plan = [((True, True), False), ((variant % 2 == 0, True), False), ((True, True), variant % 3 == 0)]
    max_preempt = 2
    stack = [[]]
    done = 0
    seen = set()
    exhausted = True
    while stack:
        if done >= budget or ctx.expired(0.9):
            exhausted = False
            break
        prefix = stack.pop()
        strat = S.PrefixStrategy(prefix)
        sc = run_schedule(ctx, strat, plan, None, 0.0, rng, "dfs", {"kind": "dfs", "plan": plan, "prefix": prefix}, dfs=True)
        done += 1
        ctx.count("evaluations")
        ctx.count("mon.dfs_schedules")
        key = sc.trace_key()
        if key in seen:
            continue
        seen.add(key)
        # expand alternatives beyond the prefix
        taken = sc.choices
        pre = 0
        for pos, (idx, nalt, default, cur_runnable) in enumerate(strat.alternatives):
            c = taken[pos] if pos < len(taken) else default
            if pos >= len(prefix):
                for alt in range(nalt):
                    if alt == c:
                        continue
                    cost = 1 if (cur_runnable and alt != default) else 0
                    if pre + cost <= max_preempt:
                        stack.append(list(taken[:pos]) + [alt])
            if cur_runnable and c != default:
                pre += 1
    ctx.count("dfs.distinct_traces", len(seen))
    if exhausted:
        ctx.count("dfs.subspace_exhausted")
    return exhausted


def stress(ctx, rng, ntxn):
    """uncontrolled run with real threading: mutual exclusion + final state only"""
    old = sys.getswitchinterval()
    sys.setswitchinterval(1e-6)
    try:
        z = new_zone()
        inside = [0]
        bad = []
        committed = [0]
        lock = threading.Lock()
        nthreads = 12
        per = max(1, ntxn // nthreads)

        def worker(wid):
            r = random.Random(wid)
            for k in range(per):
                txn = z.writer()
                inside[0] += 1
                if inside[0] != 1:
                    bad.append(("two writers", wid))
                try:
                    cur = int(txn.get(COUNTER, "TXT")[0].strings[0])
                    txn.replace(COUNTER, 0, txt(cur + 1))
                    do = r.random() < 0.8
                finally:
                    inside[0] -= 1
                    if do:
                        txn.commit()
                        with lock:
                            committed[0] += 1
                    else:
                        txn.rollback()
                if r.random() < 0.3:
                    with z.reader() as rd:
                        zone_state(rd)

        ts = [threading.Thread(target=worker, args=(i,)) for i in range(nthreads)]
        for t in ts:
            t.start()
        for t in ts:
            t.join(timeout=120)
        if any(t.is_alive() for t in ts):
            ctx.mark_inconclusive("uncontrolled stress run did not finish within 120 s (not a verdict)")
            return
        ctx.count("mon.uncontrolled_transactions", per * nthreads)
        ctx.count("evaluations", per * nthreads)
        if bad:
            ctx.violation("two-write-transactions-open:uncontrolled", str(bad[:3]), None)
        with z.reader() as rd:
            st = zone_state(rd)
        if st[0] != committed[0]:
            ctx.violation("final-zone-not-serial-application:uncontrolled", f"counter {st[0]} commits {committed[0]}", None)
    finally:
        sys.setswitchinterval(old)


def run(spec, ctx):
    rng = ctx.rng
    inj = S.LineInjector().watch(dns.versioned)
    inj.watch(dns.zone.Transaction, dns.transaction.Transaction._end, dns.transaction.Transaction.commit, dns.transaction.Transaction.rollback,
              dns.transaction.Transaction.__exit__, dns.zone.WritableVersion.__init__, dns.zone.ImmutableVersion.__init__)
    inj.install()
    try:
        for i in range(spec["n_random"]):
            if ctx.expired(0.45):
                break
            ctx.count("evaluations")
            plan = gen_plan(rng)
            line_p = rng.choice((0.0, 0.05, 0.2, 0.5, 1.0))
            opts = gen_opts(rng, plan)
            sc = run_schedule(ctx, S.RandomStrategy(rng, stay=rng.choice((0.3, 0.6, 0.85))), plan, inj, line_p, rng, "random", {"kind": "random", "plan": plan, "line_p": line_p, "opts": {k: sorted(v) if isinstance(v, set) else v for k, v in opts.items()}}, opts=opts)
            if i < 1:
                ctx.sample({"plan": plan, "line_p": line_p, "trace_head": sc.trace[:25], "events_head": [e[1:4] for e in sc.events[:20]]})
        for i in range(spec["n_pct"]):
            if ctx.expired(0.7):
                break
            ctx.count("evaluations")
            plan = gen_plan(rng)
            line_p = rng.choice((0.2, 1.0))
            opts = gen_opts(rng, plan)
            run_schedule(ctx, S.PCTStrategy(rng, len(plan), depth=rng.choice((1, 2, 3)), horizon=rng.choice((50, 300))), plan, inj, line_p, rng, "pct", {"kind": "pct", "plan": plan, "line_p": line_p, "opts": {k: sorted(v) if isinstance(v, set) else v for k, v in opts.items()}}, opts=opts)
        ctx.count("mon.line_events", inj.count)
    finally:
        inj.uninstall()
    if spec["dfs"]:
        dfs_explore(ctx, None, rng, spec["dfs_budget"], spec["dfs_variant"])
    if spec["stress"]:
        stress(ctx, rng, spec["stress_txns"])


def coverage_extra(tier, counters, tables):
    return {"exhaustive": False, "dfs_subspaces_exhausted": int(counters.get("dfs.subspace_exhausted", 0)), "dfs_distinct_traces": int(counters.get("dfs.distinct_traces", 0))}


def replay(case, ctx):
    """re-executes a recorded schedule from its choice list (lock/event granularity; line-level schedules need the seed)"""
    plan = [tuple((tuple(c), s)) for c, s in case["plan"]]
    choices = case.get("choices") or case.get("prefix") or []
    rng = random.Random(0)
    o = case.get("opts")
    opts = {"zone": o.get("zone"), "repl": set(o.get("repl", ())), "with_exit": {int(k): v for k, v in (o.get("with_exit") or {}).items()}, "readers": o.get("readers", 0)} if o else None
    run_schedule(ctx, S.PrefixStrategy(choices), plan, None, 0.0, rng, "replay", {"kind": "replay", "plan": case["plan"]}, opts=opts)
