"""C13 — inbound AXFR/IXFR converges to the server's zone or leaves the zone untouched."""

import dns.btreezone
import dns.exception
import dns.flags
import dns.message
import dns.name
import dns.rcode
import dns.rdata
import dns.rdataclass
import dns.rdatatype
import dns.rrset
import dns.versioned
import dns.xfr
import dns.zone

from vlib import core
from vlib.gen import names as GN
from vlib.gen import zones as GZ
from vlib.ref import names as RN

PROP = "C13"
LEVEL = "fault_enumeration"
RULE = (
    "chains of zone versions v0..vk (serial steps of 1, large steps and wrap through 2^32) give valid response streams: AXFR, "
    "multi-step and condensed IXFR from every vi, AXFR-style answer to an IXFR request, up-to-date single SOA, UDP IXFR, UDP "
    "'use TCP'; every stream is cut into messages in several ways (one record per message, all in one, random cuts; question in "
    "the first / every / no message), rendered to wire, parsed exactly as the transfer code does, and fed to dns.xfr.Inbound over "
    "plain, versioned and B-tree zones x relativize. Single-fault enumeration at every position: drop, duplicate, swap with "
    "neighbour, truncate, corrupt SOA serial (5 ways), owner (out of zone / other name), type; message-level faults (rcode, wrong "
    "question name/type, surplus record after the final SOA in the same / next message). Distinct by (request kind, stream shape, "
    "zone class, relativize, fault kind, position class, outcome)."
)
RULE += " " + (
    "Also: after an applied transfer the zone is compared in its stored form (relative names in a relativized zone) with a zone-file load of the server's records. Zones with retained history before the transfer; signed aliases; deadlines of every wait in the sync loop and of every wait handed to the async backend."
)
ASSUMPTIONS = [
    "reference stream interpreter B3 in this file (DESIGN.md Appendix B3) decides accept / reject / not-done and the resulting content",
    "TTLs are a function of (owner, type) so RRset TTLs do not change between versions",
]
REQUIRED = ["mon.transfer_into_zone_of_another_class", "mon.transferred_zone_form", "mon.faulted_via_socket_loop", "mon.via_socket_loop", "mon.via_socket_loop_udp", "mon.via_socket_loop_async", "mon.valid_transfer_converges", "mon.faulted_transfer", "mon.error_leaves_zone_untouched", "mon.must_reject_classes", "mon.notdone_leaves_zone_untouched"]
BUDGET = {"quick": 45.0, "thorough": 480.0}

FACTORIES = [("plain", dns.zone.Zone), ("versioned", dns.versioned.Zone), ("btree", dns.btreezone.Zone)]
ORIGIN_L = (b"example", b"")
ORIGIN = dns.name.Name(ORIGIN_L)


def shards(tier, seed):
    mult = 1 if tier == "quick" else 12
    return [{"n": 5 * mult} for _ in range(16)]


# records are (owner text abs, rdtype text, ttl, rdata text)


def soa(serial):
    return ("example.", "SOA", 300, f"ns.example. host.example. {serial} 3600 600 86400 60")


def ttl_for(o, t):
    return 60 * (1 + (sum(map(ord, o + t)) % 5))


def gen_chain(rng):
    owners = ["example.", "a.example.", "b.example.", "www.a.example.", "sub.example.", "x.sub.example.", "*.w.example."]

    def rr():
        if rng.random() < 0.12:
            # a signed alias: the CNAME and the signature covering it live together at one name (and nothing else does)
            o = rng.choice(("alias.example.", "alias2.sub.example."))
            if rng.random() < 0.5:
                return (o, "CNAME", ttl_for(o, "CNAME"), "www.a.example.")
            return (o, "RRSIG", ttl_for(o, "RRSIG"), f"CNAME 8 2 300 20300101000000 20200101000000 {rng.randrange(1, 4)} example. q83v")
        o = rng.choice(owners)
        t = rng.choice(("A", "A", "TXT", "MX", "AAAA", "RRSIG", "SRV", "NS", "CNAME-LIKE"))
        if t == "NS" and o == "example.":
            t = "A"
        if t == "CNAME-LIKE":
            t = "PTR"
        text = {"SRV": f"{rng.randrange(3)} 5 {rng.choice((80, 443))} srv{rng.randrange(3)}.{rng.choice(('example.', 'sub.example.', 'elsewhere.test.'))}", "NS": f"ns{rng.randrange(3)}.{o}",
                "PTR": f"p{rng.randrange(3)}.example.","A": f"10.{rng.randrange(4)}.0.{rng.randrange(1, 6)}", "TXT": f'"t{rng.randrange(6)}"', "MX": f"{rng.randrange(3) * 10} mx{rng.randrange(3)}.example.", "AAAA": f"2001:db8::{rng.randrange(1, 6):x}",
                # signatures: one record set per covered type at a name; a re-signing diff deletes and adds them
                "RRSIG": f"{rng.choice(('A', 'TXT', 'MX'))} 8 2 300 20300101000000 20200101000000 {rng.randrange(1, 4)} example. q83v"}[t]
        return (o, t, ttl_for(o, t), text)

    start = rng.choice((1, 5, 2**31 - 2, 2**32 - 3, 2**32 - 1, rng.randrange(1, 2**32)))
    k = rng.randint(1, 4)
    serials = [start]
    for _ in range(k):
        step = rng.choice((1, 1, 2, 1000, 2**31 - 1))
        s = (serials[-1] + step) % 2**32
        while s == 0 or s in serials:
            s = (s + 1) % 2**32  # a serial that comes round again inside one chain would end the incremental stream early
        serials.append(s)
    base = {("example.", "NS", 3600, "ns.example.")}
    for _ in range(rng.randint(1, 6)):
        base.add(rr())
    versions = [frozenset(base)]
    for i in range(k):
        cur = set(versions[-1])
        for _ in range(rng.randint(0, 3)):
            cand = [r for r in cur if r[1] != "NS"]
            if cand:
                cur.discard(rng.choice(cand))
        for _ in range(rng.randint(0, 3)):
            cur.add(rr())
        if frozenset(cur) == versions[-1]:
            cur.add(("new%d.example." % i, "A", ttl_for("new%d.example." % i, "A"), "10.9.9.9"))
        versions.append(frozenset(cur))
    return serials, versions


def streams(rng, serials, versions):
    """yields (kind, base index, is_udp, record list).  Records: tuples; SOA tuples included."""
    k = len(versions) - 1
    target = sorted(versions[k])
    out = []
    body = list(target)
    rng.shuffle(body)
    out.append(("axfr", 0, False, [soa(serials[k])] + body + [soa(serials[k])]))
    for i in range(k):
        recs = [soa(serials[k])]
        for j in range(i, k):
            recs.append(soa(serials[j]))
            recs += sorted(versions[j] - versions[j + 1])
            recs.append(soa(serials[j + 1]))
            recs += sorted(versions[j + 1] - versions[j])
        recs.append(soa(serials[k]))
        out.append(("ixfr-multistep", i, False, recs))
        recs = [soa(serials[k]), soa(serials[i])] + sorted(versions[i] - versions[k]) + [soa(serials[k])] + sorted(versions[k] - versions[i]) + [soa(serials[k])]
        out.append(("ixfr-condensed", i, False, recs))
        if rng.random() < 0.5:
            out.append(("ixfr-udp", i, True, list(recs)))
        if body:
            out.append(("ixfr-axfr-style", i, False, [soa(serials[k])] + body + [soa(serials[k])]))
    out.append(("ixfr-uptodate", k, rng.random() < 0.5, [soa(serials[k])]))
    if k >= 1:
        out.append(("ixfr-udp-usetcp", 0, True, [soa(serials[k])]))
    return out


def cut(rng, recs, how):
    if how == "one":
        return [recs]
    if how == "each":
        return [[r] for r in recs]
    msgs, cur = [], []
    for r in recs:
        cur.append(r)
        if rng.random() < 0.4:
            msgs.append(cur)
            cur = []
    if cur:
        msgs.append(cur)
    return msgs


# ------------------------------------------------------------------------------------------ reference interpreter B3


class Reject(Exception):
    pass


def serial_lt(a, b):
    """RFC 1982: a < b"""
    return a != b and ((a < b and b - a < 2**31) or (a > b and a - b > 2**31))


def is_soa(r):
    return r[1] == "SOA" and r[0].lower() == "example."


def soa_serial(r):
    return int(r[3].split()[2])


def in_zone(r):
    return r[0].lower() == "example." or r[0].lower().endswith(".example.")


def interpret(z0, s0, kind, is_udp, msgs):
    """returns ('ok', content set, serial) | ('reject',) | ('notdone',).  msgs: list of dict(records, rcode, qname, qtype)"""
    incremental = kind != "axfr"
    want_qtype = "IXFR" if incremental else "AXFR"
    state = {"S": None, "done": False, "expecting": False, "delete": False, "serial": s0, "cur": set(z0) if incremental else set(), "replacing": not incremental}
    try:
        for m in msgs:
            if state["done"]:
                break  # the client stops reading once the transfer is complete
            if m["rcode"] != 0:
                raise Reject("rcode")
            if m["qname"] is not None:
                if m["qname"].lower() != "example." or m["qtype"] != want_qtype:
                    raise Reject("question")
            recs = list(m["records"])
            idx = 0
            if state["S"] is None:
                if not recs or not is_soa(recs[0]):
                    raise Reject("first record not apex SOA")
                state["S"] = recs[0]
                idx = 1
                if incremental:
                    t = soa_serial(recs[0])
                    if t == s0:
                        state["done"] = True
                        state["result"] = ("uptodate",)
                    elif serial_lt(t, s0):
                        raise Reject("serial went backwards")
                    else:
                        if is_udp and len(recs) == 1:
                            raise Reject("use tcp")
                        state["expecting"] = True
            for r in recs[idx:]:
                if state["done"]:
                    raise Reject("answers after final SOA")
                if is_soa(r):
                    if incremental:
                        state["delete"] = not state["delete"]
                    if r == state["S"] and (not incremental or state["delete"]):
                        if state["expecting"]:
                            raise Reject("empty IXFR")
                        if incremental and state["serial"] != soa_serial(r):
                            raise Reject("unexpected end of IXFR sequence")
                        state["done"] = True
                        state["result"] = ("replace", set(state["cur"]), soa_serial(r))
                    else:
                        state["expecting"] = False
                        if incremental:
                            if state["delete"]:
                                if soa_serial(r) != state["serial"]:
                                    raise Reject("IXFR base serial mismatch")
                            else:
                                state["serial"] = soa_serial(r)
                        else:
                            raise Reject("unexpected origin SOA in AXFR")
                    continue
                if state["expecting"]:
                    # second record is not an SOA: the answer is AXFR-style
                    incremental = False
                    state["expecting"] = False
                    state["delete"] = False
                    state["cur"] = set()
                if not in_zone(r):
                    continue
                if r[1] == "SOA":
                    raise Reject("SOA below the apex")
                if state["delete"]:
                    if r not in state["cur"]:
                        raise Reject("delete of a record that is not there")
                    state["cur"].discard(r)
                else:
                    state["cur"].add(r)
            if is_udp and not state["done"]:
                raise Reject("unexpected end of UDP IXFR")
    except Reject as e:
        return ("reject", str(e))
    if not state["done"]:
        return ("notdone",)
    if state["result"][0] == "uptodate":
        return ("ok", None, s0)
    return ("ok", state["result"][1], state["result"][2])


# ------------------------------------------------------------------------------------------ library side


def build_zone(factory, relativize, recs, serial, rng=None):
    """the zone before the transfer.  With rng, a versioned zone is sometimes built in two commits with older versions
    retained (the last record arrives in a second transaction): its content is the same, its history is not"""
    recs = sorted(recs)
    late = None
    if rng is not None and factory is not dns.zone.Zone and recs and rng.random() < 0.4:
        cand = [r for r in recs if r[1] not in ("NS", "SOA")]
        if cand:
            late = rng.choice(cand)
            recs = [r for r in recs if r is not late]
    lines = [f"{o} {ttl} IN {t} {text}" for o, t, ttl, text in [soa(serial)] + recs]
    z = dns.zone.from_text("\n".join(lines) + "\n", origin=ORIGIN, relativize=relativize, zone_factory=factory, check_origin=False)
    if late is not None:
        z.set_max_versions(rng.choice((2, 4, None)))
        o, t, ttl, text = late
        with z.writer() as txn:
            oname = ORIGIN if isinstance(ORIGIN, dns.name.Name) else dns.name.from_text(ORIGIN)
            txn.add(dns.name.from_text(o), ttl, dns.rdata.from_text("IN", t, text, origin=oname, relativize=relativize))
    return z


def zone_fp(z):
    c = GZ.content_of_lib_zone(z)
    vids = tuple(v.id for v in z._versions) if hasattr(z, "_versions") else None
    return c, vids


def form_of(z):
    """the zone as its user sees it, names as stored: {owner text: {(type, covers): frozenset(rdata text)}} -- in a relativized
    zone owners AND the names inside records are relative to the origin, in an absolute one neither is"""
    out = {}
    for name, node in z.nodes.items():
        d = out.setdefault(name.to_text().lower(), {})
        for rds in node.rdatasets:
            d[(int(rds.rdtype), int(rds.covers))] = frozenset(rd.to_text().lower() for rd in rds)
    return out


def check_form(ctx, z, relativize, recs, serial, how, tag, case):
    """after a transfer that was applied: the zone is the one a zone-file load of the server's records would have given,
    names inside records included"""
    ctx.count("mon.transferred_zone_form")
    zref = build_zone(dns.zone.Zone, relativize, recs, serial)
    got, want = form_of(z), form_of(zref)
    if got != want:
        bad = sorted(k for k in set(got) | set(want) if got.get(k) != want.get(k))[:3]
        detail = "; ".join(f"{k}: {sorted(map(sorted, got.get(k, {}).values()))} vs {sorted(map(sorted, want.get(k, {}).values()))}" for k in bad)
        ctx.violation(f"transferred-zone-names-not-in-the-zone's-form:{'relativized' if relativize else 'absolute'}:{how}", f"{tag}: {detail[:600]}", case)


def content_of(recs, serial):
    out = {}
    for o, t, ttl, text in list(recs) + [soa(serial)]:
        rd = dns.rdata.from_text("IN", t, text)
        k = tuple(RN.fold(l) for l in dns.name.from_text(o).labels)
        cur = out.setdefault(k, {}).setdefault((int(rd.rdtype), int(rd.covers())), [ttl, set()])
        cur[1].add(rd.to_digestable())
    return {k: {kk: (v[0], frozenset(v[1])) for kk, v in d.items()} for k, d in out.items()}


def render(m_spec, qtype_text, idnum):
    m = dns.message.Message(id=idnum)
    m.flags = dns.flags.QR | dns.flags.AA
    m.set_rcode(m_spec["rcode"])
    if m_spec["qname"] is not None:
        m.find_rrset(m.question, dns.name.from_text(m_spec["qname"]), dns.rdataclass.IN, dns.rdatatype.from_text(m_spec["qtype"]), create=True, force_unique=True)
    for o, t, ttl, text in m_spec["records"]:
        rr = dns.rrset.from_text(o, ttl, "IN", t, text)
        m.answer.append(rr)
    return m.to_wire(max_size=65535, want_shuffle=False)


def run_transfer(ctx, zname, factory, relativize, z0, s0, kind, is_udp, msgs, fault, case):
    """returns nothing; reports"""
    incremental = kind != "axfr"
    rdtype = dns.rdatatype.IXFR if incremental else dns.rdatatype.AXFR
    z = build_zone(factory, relativize, z0, s0, rng=ctx.rng)
    before = zone_fp(z)
    ref = interpret(z0, s0, kind, is_udp, msgs)
    tag = f"{zname}:{'rel' if relativize else 'abs'}"
    err = None
    done = False
    try:
        wires = [render(m, "IXFR" if incremental else "AXFR", 7) for m in msgs]
    except Exception as e:
        ctx.violation("harness-render-failed:" + core.exc_sig(e), repr(e), case)
        return
    try:
        with dns.xfr.Inbound(z, rdtype, s0 if incremental else None, is_udp) as inb:
            for w in wires:
                r = dns.message.from_wire(w, xfr=True, origin=z.from_wire_origin(), one_rr_per_rrset=incremental)
                done = inb.process_message(r)
                if done:
                    break  # as dns.query._inbound_xfr does
    except dns.exception.DNSException as e:
        err = e
    except (KeyError, ValueError) as e:
        err = e
    except Exception as e:
        ctx.violation(f"transfer-raised-foreign:{tag}:" + core.exc_sig(e), repr(e), case)
        return
    after = zone_fp(z)
    outcome = "error" if err is not None else "done" if done else "notdone"
    ctx.seen((kind, zname, relativize, fault[0] if fault else "valid", fault[2] if fault else "-", outcome, ref[0]))
    if err is not None:
        ctx.count("mon.error_leaves_zone_untouched")
        if after[0] != before[0]:
            ctx.violation(f"error-reported-for-applied-transfer:{fault[0] if fault else 'valid'}:{kind}", f"{tag}: {err!r}; zone changed", case)
            return
        if ref[0] == "ok":
            ctx.violation(f"valid-stream-rejected:{fault[0] if fault else 'valid'}:{kind}:{type(err).__name__}", f"{tag}: {err!r}", case)
        return
    if done:
        if ref[0] != "ok":
            ctx.violation(f"malformed-stream-accepted:{fault[0] if fault else 'valid'}:{kind}:{ref[1] if len(ref) > 1 else ref[0]}", f"{tag}", case)
            return
        want = before[0] if ref[1] is None else content_of(ref[1], ref[2])
        if after[0] != want:
            ctx.violation(f"transfer-result-differs-from-server-zone:{fault[0] if fault else 'valid'}:{kind}", f"{tag}: {diffc(after[0], want)}", case)
        elif ref[1] is not None:
            check_form(ctx, z, relativize, ref[1], ref[2], kind, tag, case)
        return
    # not done, no error
    ctx.count("mon.notdone_leaves_zone_untouched")
    if after[0] != before[0]:
        ctx.violation(f"incomplete-transfer-changed-zone:{kind}", f"{tag}", case)
    if ref[0] == "ok":
        ctx.violation(f"complete-stream-not-done:{fault[0] if fault else 'valid'}:{kind}", f"{tag}", case)


def diffc(a, b):
    out = []
    for k in set(a) | set(b):
        if a.get(k) != b.get(k):
            out.append(RN.to_text(k))
    return "differs at " + ", ".join(sorted(out)[:5])


def mk_msgs(rng, recs, how, qmode, kind):
    groups = cut(rng, recs, how)
    msgs = []
    for i, g in enumerate(groups):
        q = (qmode == "all") or (qmode == "first" and i == 0)
        msgs.append({"records": list(g), "rcode": 0, "qname": "example." if q else None, "qtype": "AXFR" if kind == "axfr" else "IXFR"})
    return msgs


def faults_for(rng, msgs, serials, base_serial):
    """yields (fault kind, mutated msgs, position class)"""
    flat = [(mi, ri) for mi, m in enumerate(msgs) for ri in range(len(m["records"]))]
    n = len(flat)

    def clone():
        return [dict(m, records=list(m["records"])) for m in msgs]

    def pclass(i):
        return "first" if i == 0 else "last" if i == n - 1 else "middle"

    for i, (mi, ri) in enumerate(flat):
        r = msgs[mi]["records"][ri]
        c = clone()
        del c[mi]["records"][ri]
        yield ("drop", [m for m in c if m["records"] or m is c[0]], pclass(i))
        c = clone()
        c[mi]["records"].insert(ri, r)
        yield ("duplicate", c, pclass(i))
        if i + 1 < n:
            mj, rj = flat[i + 1]
            c = clone()
            c[mi]["records"][ri], c[mj]["records"][rj] = c[mj]["records"][rj], c[mi]["records"][ri]
            yield ("swap", c, pclass(i))
        if i > 0:
            c = clone()
            c = c[: mi + 1]
            c[mi]["records"] = c[mi]["records"][:ri]
            yield ("truncate", [m for m in c if m["records"]], pclass(i))
        if r[1] == "SOA":
            s = soa_serial(r)
            for how, v in (("serial+1", (s + 1) % 2**32 or 1), ("serial-1", (s - 1) % 2**32 or 1), ("serial=base", base_serial), ("serial-far", (s + 2**30) % 2**32 or 1), ("serial-backwards", (base_serial - 5) % 2**32 or 1)):
                if v == s:
                    continue
                c = clone()
                c[mi]["records"][ri] = soa(v)
                yield ("soa-" + how, c, pclass(i))
        c = clone()
        c[mi]["records"][ri] = ("outside.invalid.",) + r[1:] if r[1] != "SOA" else ("outside.invalid.", "SOA") + r[2:]
        yield ("owner-out-of-zone", c, pclass(i))
        c = clone()
        c[mi]["records"][ri] = ("other.example.", r[1], ttl_for("other.example.", r[1]) if r[1] != "SOA" else r[2], r[3])
        yield ("owner-other-name", c, pclass(i))
        if r[1] != "TXT" and not r[0].startswith("alias"):  # (ordinary data next to a CNAME is the node rule's business: C09 / C10)
            c = clone()
            c[mi]["records"][ri] = (r[0], "TXT", ttl_for(r[0], "TXT"), '"corrupted"')
            yield ("type-corrupted", c, pclass(i))
    for mi in range(len(msgs)):
        c = clone()
        c[mi]["rcode"] = rng.choice((2, 5, 9))
        yield ("rcode", c, "first" if mi == 0 else "later")
        c = clone()
        c[mi]["qname"] = "wrong.example."
        yield ("question-name", c, "first" if mi == 0 else "later")
        c = clone()
        c[mi]["qname"] = "example."
        c[mi]["qtype"] = "A"
        yield ("question-type", c, "first" if mi == 0 else "later")
    c = clone()
    c[-1]["records"].append(("late.example.", "A", ttl_for("late.example.", "A"), "10.1.1.1"))
    yield ("surplus-after-final-soa-same-message", c, "last")
    c = clone()
    c.append({"records": [("late.example.", "A", ttl_for("late.example.", "A"), "10.1.1.1")], "rcode": 0, "qname": None, "qtype": "IXFR"})
    yield ("surplus-after-final-soa-next-message", c, "last")


MUST_REJECT = {"rcode", "question-name", "question-type", "surplus-after-final-soa-same-message", "soa-serial-backwards", "truncate"}


# ------------------------------------------------------------------------------------------ through dns.query.inbound_xfr


class _Stream:
    """scripted stream socket handed out by a stand-in for dns.query.make_socket"""

    def __init__(self, data, rng):
        self.data, self.pos, self.rng = data, 0, rng
        self.written = bytearray()

    def recv(self, n):
        if self.pos >= len(self.data):
            return b""
        if self.rng.random() < 0.15 and not getattr(self, "_just_blocked", False):
            self._just_blocked = True
            raise BlockingIOError  # nothing there yet: the library waits (with a deadline) and asks again
        self._just_blocked = False
        k = max(1, min(n, self.rng.choice((1, 2, 7, 100, n))))
        out = self.data[self.pos:self.pos + k]
        self.pos += len(out)
        return out

    def send(self, data):
        self.written += data
        return len(data)

    def __enter__(self):
        return self

    def __exit__(self, *a):
        return False


def run_via_query(ctx, rng, zname, factory, relativize, z0, s0, kind, msgs, sign, last_unsigned, case):
    """drive the real socket loop (dns.query.inbound_xfr) over a scripted stream; optional TSIG"""
    import struct

    import dns.query
    import dns.tsig
    from vlib.mon.hooks import swap_attr

    incremental = kind != "axfr"
    z = build_zone(factory, relativize, z0, s0, rng=ctx.rng)
    before = zone_fp(z)
    ref = interpret(z0, s0, kind, False, msgs)
    key = dns.tsig.Key("xfr-key.example.", b"0123456789abcdef0123456789abcdef") if sign else None
    q, serial = dns.xfr.make_query(z, serial=s0 if incremental else None, keyring=key)
    import dns.renderer

    clock = _FrozenClock()
    with swap_attr(dns.message, "time", clock), swap_attr(dns.renderer, "time", clock):
        return _run_via_query(ctx, rng, zname, relativize, z, before, ref, key, q, kind, msgs, sign, last_unsigned, case,
                              fresh_zone=lambda: build_zone(factory, relativize, z0, s0))


class _FrozenClock:
    """the request is rendered (and signed) twice, by the harness and by the library: both must see one instant"""

    def time(self):
        return 1_800_000_000.0


def async_twin(ctx, rng, fresh_zone, q, dgrams, stream, mode, sync_outcome, case):
    """the same scripted peer through dns.asyncquery.inbound_xfr and a stand-in backend: same verdict, same resulting zone"""
    import asyncio
    import socket

    import dns.asyncquery

    z2 = fresh_zone()
    opened = []
    waits = []  # (operation, timeout handed to the backend): a number of seconds from now, never more than the lifetime given

    class ASock:
        def __init__(self, kind):
            self.type = kind
            self.q = list(dgrams)
            self.data, self.pos = stream, 0

        async def __aenter__(self):
            return self

        async def __aexit__(self, *a):
            return False

        async def sendto(self, what, destination, timeout):
            waits.append(("sendto", timeout))
            return len(what)

        async def sendall(self, what, timeout):
            waits.append(("sendall", timeout))
            return None

        async def recvfrom(self, size, timeout):
            waits.append(("recvfrom", timeout))
            if not self.q:
                raise dns.exception.Timeout
            return self.q.pop(0), ("192.0.2.1", 53)

        async def recv(self, size, timeout):
            waits.append(("recv", timeout))
            if self.type == socket.SOCK_DGRAM:
                if not self.q:
                    raise dns.exception.Timeout
                return self.q.pop(0)[:size]
            if self.pos >= len(self.data):
                return b""
            k = max(1, min(size, rng.choice((1, 2, 7, 100, size))))
            out = self.data[self.pos:self.pos + k]
            self.pos += len(out)
            return out

    class Backend:
        def name(self):
            return "scripted"

        async def make_socket(self, af, socktype, *a, **k):
            sk = ASock(socktype)
            opened.append(sk)
            return sk

    async def go():
        await dns.asyncquery.inbound_xfr("192.0.2.1", z2, query=q, timeout=5, lifetime=30, udp_mode=mode, backend=Backend())

    err = None
    loop = asyncio.new_event_loop()
    try:
        with core.case_guard(20):
            loop.run_until_complete(go())
    except core.CaseTimeout:
        ctx.violation("transfer-loop-did-not-finish:async", "", case)
        return
    except (dns.exception.DNSException, EOFError, KeyError, ValueError) as e:
        err = e
    except Exception as e:
        ctx.violation("async-inbound_xfr-raised-foreign:" + core.exc_sig(e), repr(e), case)
        return
    finally:
        loop.close()
    ctx.count("mon.via_socket_loop_async")
    late = [(op, t) for op, t in waits if t is not None and not (0 <= t <= 30.5)]
    if late:
        ctx.violation(f"async-transfer-hands-the-backend-a-wait-beyond-its-lifetime:{late[0][0]}", f"lifetime=30, timeout=5: {late[0][0]}(..., timeout={late[0][1]!r})", case)
        return
    outcome = (type(err).__name__ if err else "ok", zone_fp(z2)[0], len(opened))
    if outcome != sync_outcome:
        what = "verdict" if outcome[0] != sync_outcome[0] else "zone" if outcome[1] != sync_outcome[1] else "sockets-opened"
        ctx.violation(f"async-transfer-differs-from-sync:{what}", f"sync {sync_outcome[0]}/{sync_outcome[2]} sockets, async {outcome[0]}/{outcome[2]} sockets", case)


def _run_via_query(ctx, rng, zname, relativize, z, before, ref, key, q, kind, msgs, sign, last_unsigned, case, fresh_zone=None):
    import struct

    import dns.query
    from vlib.mon.hooks import swap_attr

    qw = q.to_wire()  # signs the query: q.mac is the request MAC
    stream = bytearray()
    tctx = None
    for i, m in enumerate(msgs):
        mm = dns.message.Message(id=q.id)
        mm.flags = dns.flags.QR | dns.flags.AA
        mm.set_rcode(m["rcode"])
        if m["qname"] is not None:
            mm.find_rrset(mm.question, dns.name.from_text(m["qname"]), dns.rdataclass.IN, dns.rdatatype.from_text(m["qtype"]), create=True, force_unique=True)
        for o, t, ttl, text in m["records"]:
            mm.answer.append(dns.rrset.from_text(o, ttl, "IN", t, text))
        unsigned = sign and last_unsigned and i == len(msgs) - 1
        if sign and not unsigned:
            mm.use_tsig(key)
            mm.request_mac = q.mac if i == 0 else b""
            w = mm.to_wire(max_size=65535, want_shuffle=False, multi=True, tsig_ctx=tctx)
            tctx = mm.tsig_ctx
        else:
            w = mm.to_wire(max_size=65535, want_shuffle=False)
        stream += struct.pack("!H", len(w)) + w
    fake = _Stream(bytes(stream), rng)
    err = None
    deadlines = []  # the expiration handed to every wait: the earlier of (message start + timeout) and (transfer start + lifetime)
    t_begin = None
    try:
        with swap_attr(dns.query, "make_socket", lambda *a, **k: fake), swap_attr(dns.query, "_connect", lambda *a, **k: None), \
                swap_attr(dns.query, "_wait_for", lambda fd, r, w, x, expiration: deadlines.append(expiration)):
            with core.case_guard(20):
                t_begin = dns.query.time.time()
                dns.query.inbound_xfr("192.0.2.1", z, query=q, timeout=5, lifetime=30)
    except core.CaseTimeout:
        ctx.violation("transfer-loop-did-not-finish:tcp", "", case)
        return
    except (dns.exception.DNSException, EOFError, KeyError, ValueError) as e:
        err = e
    except Exception as e:
        ctx.violation(f"inbound_xfr-raised-foreign:" + core.exc_sig(e), repr(e), case)
        return
    after = zone_fp(z)
    tag = f"{zname}:{'rel' if relativize else 'abs'}:{'tsig' if sign else 'plain'}"
    ctx.count("mon.via_socket_loop")
    if fresh_zone is not None:
        async_twin(ctx, rng, fresh_zone, q, [], bytes(stream), dns.query.UDPMode.NEVER, (type(err).__name__ if err else "ok", after[0], 1), dict(case, twin="async"))
    ctx.seen(("via-query", kind, zname, sign, last_unsigned, type(err).__name__ if err else "ok", ref[0]))
    if deadlines and t_begin is not None:
        # timeout=5 bounds every message, lifetime=30 the whole transfer: a wait never gets more than the EARLIER of the two
        ctx.count("mon.transfer_wait_deadlines", len(deadlines))
        t_end = dns.query.time.time()
        worst = max((d for d in deadlines if d is not None), default=None)
        if any(d is None for d in deadlines) or worst > t_end + 5.5:
            ctx.violation("transfer-wait-allowed-to-run-past-the-per-message-timeout", f"timeout=5, lifetime=30: a wait was given until +{'forever' if worst is None or any(d is None for d in deadlines) else round(worst - t_begin, 2)} s", case)
            return
    if bytes(fake.written) != struct.pack("!H", len(qw)) + qw and not sign:
        ctx.violation("inbound_xfr-request-not-framed-as-rendered", "", case)
    if err is not None:
        if after[0] != before[0]:
            what = "missing-tsig-on-last-message" if (sign and last_unsigned) else "other"
            ctx.violation(f"error-reported-for-applied-transfer:via-socket-loop:{what}", f"{tag}: {err!r}; zone changed", case)
        elif ref[0] == "ok" and not (sign and last_unsigned):
            ctx.violation(f"valid-stream-rejected:via-socket-loop:{type(err).__name__}", f"{tag}: {err!r}", case)
        return
    if sign and last_unsigned and ref[0] == "ok" and after[0] != before[0]:
        ctx.violation("transfer-applied-although-last-message-unsigned", tag, case)
        return
    if ref[0] == "ok":
        want = before[0] if ref[1] is None else content_of(ref[1], ref[2])
        if after[0] != want:
            ctx.violation("transfer-result-differs-from-server-zone:via-socket-loop", f"{tag}: {diffc(after[0], want)}", case)
        elif ref[1] is not None:
            check_form(ctx, z, relativize, ref[1], ref[2], "via-socket-loop", tag, case)
    elif after[0] != before[0]:
        ctx.violation(f"malformed-stream-accepted:via-socket-loop:{ref[1] if len(ref) > 1 else ref[0]}", tag, case)
    else:
        # no error and an unchanged zone: the caller is told the transfer succeeded although it was refused or never finished
        ctx.violation(f"failed-transfer-reported-as-success:via-socket-loop:{ref[0]}", f"{tag}: reference {ref}", case)


def run_via_query_udp(ctx, rng, zname, factory, relativize, z0, s0, msgs, tcp_recs, mode, case):
    """dns.query.inbound_xfr with udp_mode TRY_FIRST / ONLY: a scripted datagram socket (a real socket.socket subclass, so the
    library's own is-this-UDP test sees it), then, if the library falls back, a scripted stream carrying tcp_recs"""
    import socket
    import struct

    import dns.query
    from vlib.mon.hooks import swap_attr

    z = build_zone(factory, relativize, z0, s0, rng=ctx.rng)
    before = zone_fp(z)
    ref_udp = interpret(z0, s0, "ixfr", True, msgs)
    use_tcp = ref_udp[0] == "reject" and ref_udp[1] == "use tcp"
    tcp_msgs = mk_msgs(rng, tcp_recs, rng.choice(("one", "random")), "first", "ixfr") if tcp_recs else []
    ref_tcp = interpret(z0, s0, "ixfr", False, tcp_msgs) if tcp_msgs else None
    q, serial = dns.xfr.make_query(z, serial=s0)
    opened = []

    class Dgram(socket.socket):
        def __init__(self, datagrams):
            super().__init__(socket.AF_INET, socket.SOCK_DGRAM)
            self.q, self.sent = list(datagrams), []

        def recvfrom(self, n):
            if not self.q:
                raise dns.exception.Timeout  # nothing more will come: what the expiration would report
            return self.q.pop(0), ("192.0.2.1", 53)

        def send(self, data):
            self.sent.append(bytes(data))
            return len(data)

        def recv(self, n):  # a datagram socket read as if it were a stream still gets (a prefix of) the next datagram
            if not self.q:
                raise dns.exception.Timeout
            return self.q.pop(0)[:n]

    def fake_make_socket(af, kind, source=None, *a, **k):
        if kind == socket.SOCK_DGRAM:
            sk = Dgram([render(m, "IXFR", q.id) for m in msgs])
        else:
            data = b"".join(struct.pack("!H", len(w)) + w for w in (render(m, "IXFR", q.id) for m in tcp_msgs))
            sk = _Stream(data, rng)
        opened.append(sk)
        return sk

    err = None
    try:
        with swap_attr(dns.query, "make_socket", fake_make_socket), swap_attr(dns.query, "_connect", lambda *a, **k: None), \
                swap_attr(dns.query, "_wait_for", lambda *a, **k: None):
            with core.case_guard(20):
                dns.query.inbound_xfr("192.0.2.1", z, query=q, timeout=5, lifetime=30, udp_mode=mode)
    except core.CaseTimeout:
        ctx.violation("transfer-loop-did-not-finish:udp", f"sockets {[type(x).__name__ for x in opened]}", case)
        return
    except (dns.exception.DNSException, EOFError, KeyError, ValueError) as e:
        err = e
    except Exception as e:
        ctx.violation("inbound_xfr-udp-raised-foreign:" + core.exc_sig(e), repr(e), case)
        return
    after = zone_fp(z)
    tag = f"{zname}:{'rel' if relativize else 'abs'}:{mode.name}"
    ctx.count("mon.via_socket_loop_udp")
    kinds = [type(x).__name__ for x in opened]
    async_twin(ctx, rng, lambda: build_zone(factory, relativize, z0, s0), q, [render(m, "IXFR", q.id) for m in msgs],
               b"".join(struct.pack("!H", len(w)) + w for w in (render(m, "IXFR", q.id) for m in tcp_msgs)), mode,
               (type(err).__name__ if err else "ok", after[0], len(opened)), dict(case, twin="async"))
    ctx.seen(("via-query-udp", mode.name, zname, ref_udp[0], use_tcp, type(err).__name__ if err else "ok", tuple(kinds)))
    if not kinds or kinds[0] != "Dgram":
        ctx.violation("udp-mode-did-not-start-with-a-datagram-socket", f"{tag}: {kinds}", case)
        return
    # what must happen
    if ref_udp[0] == "ok":
        final, fell_back = ref_udp, False
    elif use_tcp and mode == dns.query.UDPMode.TRY_FIRST:
        final, fell_back = ref_tcp, True
    else:
        final, fell_back = ref_udp, False
    if fell_back != (len(kinds) > 1):
        ctx.violation("tcp-fallback-taken-or-skipped-wrongly", f"{tag}: sockets {kinds}, reference {'falls back' if fell_back else 'stays on UDP'}", case)
        return
    if err is not None:
        if after[0] != before[0]:
            ctx.violation("error-reported-for-applied-transfer:via-socket-loop-udp", f"{tag}: {err!r}; zone changed", case)
        elif final[0] == "ok":
            ctx.violation(f"valid-stream-rejected:via-socket-loop-udp:{type(err).__name__}", f"{tag}: {err!r}", case)
        elif use_tcp and mode == dns.query.UDPMode.ONLY and not isinstance(err, dns.xfr.UseTCP):
            ctx.violation(f"udp-only-mode-does-not-report-UseTCP:{type(err).__name__}", f"{tag}: {err!r}", case)
        return
    if final[0] == "ok":
        want = before[0] if final[1] is None else content_of(final[1], final[2])
        if after[0] != want:
            ctx.violation("transfer-result-differs-from-server-zone:via-socket-loop-udp", f"{tag}: {diffc(after[0], want)}", case)
    elif after[0] != before[0]:
        ctx.violation("malformed-stream-accepted:via-socket-loop-udp", tag, case)
    else:
        ctx.violation("malformed-or-incomplete-udp-answer-not-reported", f"{tag}: reference {final}", case)


def other_class_drill(ctx, rng):
    """an incremental transfer into a zone of class CH or HS (plain and versioned zones): whole record sets deleted, records
    replaced, names added -- the zone ends as the server's version, as for class IN"""
    ctx.count("evaluations")
    ctx.count("mon.transfer_into_zone_of_another_class")
    cls = rng.choice(("CH", "HS"))
    zname, factory = rng.choice((("plain", dns.zone.Zone), ("versioned", dns.versioned.Zone), ("btree", dns.btreezone.Zone)))
    relativize = rng.random() < 0.5
    n_old = rng.randint(1, 3)

    def text(serial, recs):
        return "".join(f"{o} 300 {cls} {t} {d}\n" for o, t, d in [("example.", "SOA", f"ns.example. host.example. {serial} 3600 600 86400 60"), ("example.", "NS", "ns.example.")] + recs)

    v1 = [("keep.example.", "TXT", '"stay"'), ("version.example.", "TXT", '"1.0"')] + [(f"old{i}.example.", t, d) for i in range(n_old) for t, d in (("TXT", '"gone"'), ("HINFO", '"a" "b"'))]
    v2 = [("keep.example.", "TXT", '"stay"'), ("version.example.", "TXT", '"2.0"'), ("new.example.", "TXT", '"n"')]
    deleted = [r for r in v1 if r not in v2]
    added = [r for r in v2 if r not in v1]
    case = {"kind": "other-class", "class": cls, "zone": zname, "relativize": relativize}
    try:
        z = dns.zone.from_text(text(1, v1), origin=ORIGIN, rdclass=dns.rdataclass.from_text(cls), relativize=relativize, zone_factory=factory)
        want = GZ.content_of_lib_zone(dns.zone.from_text(text(2, v2), origin=ORIGIN, rdclass=dns.rdataclass.from_text(cls), relativize=relativize))
        m = dns.message.Message(id=1)
        m.flags = dns.flags.QR | dns.flags.AA
        m.find_rrset(m.question, ORIGIN, dns.rdataclass.from_text(cls), dns.rdatatype.IXFR, create=True, force_unique=True)
        soa1 = ("example.", "SOA", "ns.example. host.example. 1 3600 600 86400 60")
        soa2 = ("example.", "SOA", "ns.example. host.example. 2 3600 600 86400 60")
        for o, t, d in [soa2, soa1] + deleted + [soa2] + added + [soa2]:
            m.answer.append(dns.rrset.from_text(o, 300, cls, t, d))
        parsed = dns.message.from_wire(m.to_wire(max_size=65535, want_shuffle=False), xfr=True, one_rr_per_rrset=True, origin=z.origin if relativize else None)
        with dns.xfr.Inbound(z, dns.rdatatype.IXFR, serial=1, is_udp=False) as inbound:
            done = inbound.process_message(parsed)
    except Exception as e:
        ctx.violation(f"valid-stream-rejected:zone-of-class-{cls}:{zname}:" + core.exc_sig(e), repr(e), case)
        return
    ctx.seen(("other-class", cls, zname, relativize))
    got = GZ.content_of_lib_zone(z)
    if not done:
        ctx.violation(f"complete-stream-not-done:zone-of-class-{cls}:{zname}", "", case)
    elif got != want:
        ctx.violation(f"transfer-result-differs-from-server-zone:zone-of-another-class:{zname}", f"class {cls}: {diffc(got, want)}", case)


def run(spec, ctx):
    rng = ctx.rng
    for _ in range(12):
        other_class_drill(ctx, rng)
    for it in range(spec["n"]):
        if ctx.expired(1.0):
            break
        serials, versions = gen_chain(rng)
        for kind, i, is_udp, recs in streams(rng, serials, versions):
            z0, s0 = versions[i], serials[i]
            for how in ("one", "each", "random"):
                if is_udp and how != "one":
                    continue
                qmode = rng.choice(("first", "all", "none"))
                msgs = mk_msgs(rng, recs, how, qmode, "axfr" if kind == "axfr" else "ixfr")
                base_kind = "axfr" if kind == "axfr" else "ixfr"
                zname, factory = FACTORIES[rng.randrange(3)]
                relativize = rng.random() < 0.5
                case = {"kind": "xfer", "stream": kind, "cut": how, "qmode": qmode, "udp": is_udp, "base_serial": s0, "target_serial": serials[-1], "zone": zname, "relativize": relativize,
                        "records": [" ".join(map(str, r)) for r in recs][:40]}
                ctx.count("evaluations")
                ctx.count("mon.valid_transfer_converges")
                run_transfer(ctx, zname, factory, relativize, z0, s0, base_kind if kind != "ixfr-udp-usetcp" else "ixfr", is_udp, msgs, None, case)
                if not is_udp and kind != "ixfr-udp-usetcp":
                    zn2, fac2 = FACTORIES[rng.randrange(3)]
                    sign = rng.random() < 0.5
                    last_unsigned = sign and len(msgs) > 1 and rng.random() < 0.3
                    rel2 = rng.random() < 0.5
                    run_via_query(ctx, rng, zn2, fac2, rel2, z0, s0, base_kind, msgs, sign, last_unsigned,
                                  dict(case, via="dns.query.inbound_xfr", tsig=sign, last_unsigned=last_unsigned, zone=zn2, relativize=rel2))
                if is_udp:
                    import dns.query

                    zn2, fac2 = FACTORIES[rng.randrange(3)]
                    rel2 = rng.random() < 0.5
                    mode = rng.choice((dns.query.UDPMode.TRY_FIRST, dns.query.UDPMode.ONLY))
                    k_last = len(versions) - 1
                    tcp_recs = [soa(serials[k_last]), soa(s0)] + sorted(z0 - versions[k_last]) + [soa(serials[k_last])] + sorted(versions[k_last] - z0) + [soa(serials[k_last])]
                    if s0 == serials[k_last]:
                        tcp_recs = [soa(s0)]
                    run_via_query_udp(ctx, rng, zn2, fac2, rel2, z0, s0, msgs, tcp_recs, mode,
                                      dict(case, via="dns.query.inbound_xfr", udp_mode=mode.name, zone=zn2, relativize=rel2))
                if it < 1 and kind == "ixfr-multistep" and how == "one":
                    ctx.sample({"stream": kind, "base": s0, "target": serials[-1], "records": [" ".join(map(str, r)) for r in recs]})
                # single-fault enumeration on streams that are short enough
                if len(recs) <= 14 and kind not in ("ixfr-uptodate", "ixfr-udp-usetcp") and how != "each" or (how == "each" and len(recs) <= 6):
                    for fk, fmsgs, pcl in faults_for(rng, msgs, serials, s0):
                        if ctx.expired(1.0):
                            break
                        if not fmsgs:
                            continue
                        ctx.count("evaluations")
                        ctx.count("mon.faulted_transfer")
                        if fk in MUST_REJECT:
                            ctx.count("mon.must_reject_classes")
                        zname, factory = FACTORIES[rng.randrange(3)]
                        relativize = rng.random() < 0.5
                        fcase = dict(case, fault=fk, position=pcl, zone=zname, relativize=relativize, messages=[[" ".join(map(str, r)) for r in m["records"]] for m in fmsgs][:20])
                        run_transfer(ctx, zname, factory, relativize, z0, s0, base_kind, is_udp, fmsgs, (fk, None, pcl), fcase)
                        if not is_udp and kind != "ixfr-udp-usetcp" and (fk in ("truncate", "drop") or rng.random() < 0.05):
                            # the same faulted stream through the real socket loop: the peer closes after the last message
                            ctx.count("mon.faulted_via_socket_loop")
                            run_via_query(ctx, rng, zname, factory, relativize, z0, s0, base_kind, fmsgs, False, False,
                                          dict(fcase, via="dns.query.inbound_xfr", tsig=False, last_unsigned=False))
                    ctx.count("exhaustive.streams_with_every_single_fault")


def replay(case, ctx):
    ctx.notes.append("transfers are regenerated from the seed")
