"""C14 — TSIG MACs follow RFC 8945; genuine messages verify, altered ones never do."""

import struct

import dns.exception
import dns.message
import dns.name
import dns.rcode
import dns.tsig

from vlib import core
from vlib.gen import messages as GM
from vlib.mon.hooks import swap_attr
from vlib.ref import names as RN
from vlib.ref import tsig as RT
from vlib.ref import wirewalk as WW

PROP = "C14"
LEVEL = "fault_enumeration"
RULE = (
    "for every supported HMAC algorithm (9, incl. truncated variants): generated messages signed by the library as request, as "
    "response bound to a request MAC and as multi-message sequences are re-computed by an independent RFC 8945 implementation "
    "(MAC equality) and validated by both; reference-signed sequences with any subset of intermediate envelopes unsigned are "
    "validated by the library; every single bit of signed messages is flipped (exhaustive per message) and the library must "
    "reject whenever the reference rejects; wrong key / key name / algorithm / request MAC / time at the fudge boundaries / "
    "error codes / TSIG position and class faults. Distinct by (algorithm, mode, fault class, region of the flipped bit)."
)
RULE += " " + (
    "Also: continuation envelopes naming another key or algorithm (keyrings of keys, of bare secrets, a single key); use_tsig with a keyring of bare secrets for every algorithm."
)
ASSUMPTIONS = [
    "reference TSIG implementation vlib/ref/tsig.py (hmac/hashlib) and wire walker",
    "dns.message.time is replaced by a virtual clock",
    "a flipped bit the reference still authenticates (message ID, ASCII case of key/algorithm name letters) may be accepted",
]
REQUIRED = ["mon.arcount_multiple_of_256", "mon.empty_secret_key", "mon.continuation_names_another_key", "mon.direct_renderer_signing", "mon.mac_equals_reference", "mon.lib_accepts_own", "mon.ref_accepts_lib", "mon.lib_accepts_ref_sequence", "mon.bitflip", "mon.fault_rejected", "mon.multi_envelope"]
BUDGET = {"quick": 45.0, "thorough": 480.0}

ALGS = list(RT.ALGS)


class Clock:
    def __init__(self, now):
        self.now = now

    def time(self):
        return self.now


def shards(tier, seed):
    mult = 1 if tier == "quick" else 24
    return [{"n_msgs": 12 * mult, "n_flip_msgs": 2 * mult, "n_seq": 6 * mult, "alg_offset": i} for i in range(16)]


def region_of(split, wire, bit):
    byte = bit // 8
    if byte < 2:
        return "id"
    if byte < 12:
        return "header"
    if byte < split.tsig_start:
        return "body"
    return "tsig-rr"


def mkkey(rng, algtext):
    kl = (bytes(rng.choice(b"abcKEY019-") for _ in range(rng.randint(1, 8))), rng.choice((b"example", b"Keys", b"z")), b"")
    secret = bytes(rng.randrange(256) for _ in range(rng.choice((1, 16, 32, 64, 65, 200))))
    return kl, secret, dns.tsig.Key(dns.name.Name(kl), secret, dns.name.from_text(algtext))


def sign_with_lib(m, key, clock, request_mac=b"", fudge=300, orig_id=None, other=b"", multi=False, ctx=None):
    m.use_tsig(key, fudge=fudge, original_id=orig_id, other_data=other)
    m.request_mac = request_mac
    with swap_attr(dns.message, "time", clock):
        w = m.to_wire(max_size=65535, multi=multi, tsig_ctx=ctx)
    return w


def lib_validate(w, key, clock, request_mac=b"", multi=False, ctx=None):
    """returns (message or None, exception or None)"""
    try:
        with swap_attr(dns.message, "time", clock):
            with core.case_guard(20):
                m = dns.message.from_wire(w, keyring=key, request_mac=request_mac, multi=multi, tsig_ctx=ctx)
        return m, None
    except Exception as e:
        return None, e


def check_single(ctx, rng, algtext):
    """request and bound response"""
    ctx.count("evaluations")
    kl, secret, key = mkkey(rng, algtext)
    now = rng.choice((0, 1, 1_700_000_000, 2**32 - 1, 2**32, 2**40, rng.randrange(2**47)))
    clock = Clock(now)
    fudge = rng.choice((0, 1, 300, 65535))
    other = b"" if rng.random() < 0.8 else bytes(rng.randrange(256) for _ in range(rng.randint(1, 6)))
    case = {"kind": "single", "alg": algtext}
    try:
        m, info = GM.gen_message(rng, kind=rng.choice(("query", "response", "update", "notify")), size="small")
        orig_id = rng.choice((None, None, rng.randrange(65536)))
        w = sign_with_lib(m, key, clock, b"", fudge, orig_id, other)
        case["wire"] = w
        s = RT.Split(w)
        ctx.count("mon.mac_equals_reference")
        want = RT.mac(algtext, secret, RT.digest_input(s))
        if s.mac != want:
            ctx.violation(f"request-mac-differs-from-rfc8945:{algtext}", f"lib {s.mac.hex()} ref {want.hex()}", case)
            return None
        if s.time_signed != now or s.fudge != fudge or s.other != other or s.orig_id != (orig_id if orig_id is not None else m.id) or s.ttl != 0 or s.klass != 255:
            ctx.violation("tsig-fields-differ-from-requested", f"time {s.time_signed}/{now} fudge {s.fudge}/{fudge} id {s.orig_id}", case)
        ctx.count("mon.lib_accepts_own")
        m2, e = lib_validate(w, key, clock)
        if e is not None:
            ctx.violation(f"genuine-request-rejected:{algtext}:" + core.exc_sig(e), repr(e), case)
            return None
        if not m2.had_tsig or m2.mac != s.mac:
            ctx.violation("validated-message-lost-tsig-state", "", case)
        ctx.count("mon.ref_accepts_lib")
        ok, why = RT.verify(w, kl, algtext, secret, now)
        if not ok:
            ctx.violation(f"reference-rejects-library-signature:{why}", "", case)
        # response bound to the request MAC
        r, _ = GM.gen_message(rng, kind="response", size="small")
        rw = sign_with_lib(r, key, clock, s.mac, fudge)
        rs = RT.Split(rw)
        ctx.count("mon.mac_equals_reference")
        want = RT.mac(algtext, secret, RT.digest_input(rs, request_mac=s.mac))
        if rs.mac != want:
            ctx.violation(f"response-mac-differs-from-rfc8945:{algtext}", f"lib {rs.mac.hex()} ref {want.hex()}", dict(case, wire=rw))
        m3, e = lib_validate(rw, key, clock, s.mac)
        if e is not None:
            ctx.violation(f"genuine-response-rejected:{algtext}:" + core.exc_sig(e), repr(e), dict(case, wire=rw))
        # bound to a different request MAC: must be rejected
        ctx.count("mon.fault_rejected")
        other_mac = bytes(b ^ 1 for b in s.mac)
        m4, e = lib_validate(rw, key, clock, other_mac)
        if e is None:
            ctx.violation("response-accepted-with-wrong-request-mac", "", dict(case, wire=rw))
        m5, e = lib_validate(rw, key, clock, b"")
        if e is None:
            ctx.violation("response-accepted-without-request-mac", "", dict(case, wire=rw))
        # a message whose additional section, TSIG included, counts a multiple of 256 records (the count the validator has to
        # decrement borrows from its high octet); and a key whose secret is the empty string (falsy, but a key)
        if rng.random() < 0.25:
            ctx.count("mon.arcount_multiple_of_256")
            big = dns.message.make_response(dns.message.make_query("big.example.", "A"))
            for i in range(255):
                big.find_rrset(big.additional, dns.name.from_text(f"a{i}.big.example."), 1, 1, create=True).add(dns.rdata.from_text("IN", "A", "192.0.2.1"), 1)
            bw = sign_with_lib(big, key, clock, b"", fudge)
            bs = RT.Split(bw)
            if bs.mac != RT.mac(algtext, secret, RT.digest_input(bs)):
                ctx.violation(f"request-mac-differs-from-rfc8945:{algtext}:arcount-256", "", dict(case, wire=bw))
            mb, e = lib_validate(bw, key, clock)
            if e is not None:
                ctx.violation("genuine-request-rejected:arcount-multiple-of-256:" + core.exc_sig(e), repr(e), dict(case, wire=bw))
        if rng.random() < 0.25:
            ctx.count("mon.empty_secret_key")
            ekey = dns.tsig.Key(dns.name.Name(kl), b"", dns.name.from_text(algtext))
            em, _ = GM.gen_message(rng, kind="query", size="small")
            ew = sign_with_lib(em, ekey, clock, b"", fudge)
            es = RT.Split(ew)
            if es.mac != RT.mac(algtext, b"", RT.digest_input(es)):
                ctx.violation(f"request-mac-differs-from-rfc8945:{algtext}:empty-secret", "", dict(case, wire=ew))
            tb = bytearray(ew)
            tb[es.tsig_start - 1] ^= 0x01  # last octet of the signed content
            for ring_kind, ring in (("dict-of-secrets", {dns.name.Name(kl): b""}), ("key", ekey), ("callable", lambda m_, n_: ekey)):
                try:
                    with swap_attr(dns.message, "time", clock):
                        dns.message.from_wire(bytes(tb), keyring=ring)
                    ctx.violation(f"altered-or-foreign-message-accepted:empty-secret:{ring_kind}", "one bit of the signed content flipped", dict(case, wire=bytes(tb)))
                    break
                except dns.exception.DNSException:
                    ctx.count("mon.fault_rejected")
                except Exception as e:
                    ctx.violation(f"empty-secret-validation-raised-foreign:{ring_kind}:" + core.exc_sig(e), repr(e), dict(case, wire=bytes(tb)))
                    break
        # the other spellings of "sign with this key": a keyring of bare secrets with the algorithm as an argument, the key
        # named or (one entry) not named -- same key, same algorithm, hence the same MAC
        ctx.count("mon.use_tsig_spellings")
        for named in (True, False):
            m6, _ = GM.gen_message(rng, kind="query", size="small")
            m6.use_tsig({dns.name.Name(kl): secret}, keyname=dns.name.Name(kl) if named else None, fudge=fudge, algorithm=dns.name.from_text(algtext))
            with swap_attr(dns.message, "time", clock):
                w6 = m6.to_wire(max_size=65535)
            s6 = RT.Split(w6)
            if tuple(RN.fold(l) for l in RT.alg_labels(algtext)) != tuple(RN.fold(l) for l in s6.algname) or s6.mac != RT.mac(algtext, secret, RT.digest_input(s6)):
                ctx.violation(f"use_tsig-with-a-keyring-of-secrets-ignores-the-algorithm:{'key-named' if named else 'key-not-named'}",
                              f"asked for {algtext}; TSIG record names {RN.to_text(s6.algname)}", dict(case, wire=w6))
                break
        ctx.seen(("single", algtext, info["kind"], fudge == 0, bool(other)))
        return (w, kl, secret, key, now, algtext, s)
    except Exception as e:
        ctx.violation(f"tsig-roundtrip-raised:{algtext}:" + core.exc_sig(e), repr(e), case)
        return None


def check_faults(ctx, rng, signed):
    """wrong key material, time window, error codes, TSIG position/class"""
    w, kl, secret, key, now, algtext, s = signed
    case = {"kind": "fault", "alg": algtext, "wire": w}

    def must_reject(name, wire, k=key, clock_now=now, expect=None):
        ctx.count("evaluations")
        ctx.count("mon.fault_rejected")
        m, e = lib_validate(wire, k, Clock(clock_now))
        ctx.seen(("fault", name, type(e).__name__ if e else "ACCEPTED"))
        if e is None:
            ctx.violation(f"altered-or-foreign-message-accepted:{name}", "", dict(case, fault=name, wire=wire))
        elif not isinstance(e, dns.exception.DNSException):
            ctx.violation(f"fault-raised-foreign:{name}:" + core.exc_sig(e), repr(e), dict(case, fault=name, wire=wire))
        elif expect is not None and not isinstance(e, expect) and not name.startswith("tsig-"):
            # which library exception rejects a bad key/time/MAC is not part of the property: observation only
            ctx.table("obs_unexpected_rejection_class", f"{name}:{type(e).__name__}")
        elif expect is not None and not isinstance(e, expect):
            ctx.violation(f"fault-raised-unmapped-exception:{name}:{type(e).__name__}", repr(e), dict(case, fault=name, wire=wire))

    def must_accept(name, wire, clock_now):
        ctx.count("evaluations")
        m, e = lib_validate(wire, key, Clock(clock_now))
        if e is not None:
            ctx.violation(f"genuine-message-rejected:{name}:" + core.exc_sig(e), repr(e), dict(case, fault=name))

    # wrong secret / key name / algorithm
    bad_secret = dns.tsig.Key(key.name, bytes([secret[0] ^ 1]) + secret[1:], key.algorithm)
    must_reject("wrong-secret", w, bad_secret, expect=dns.tsig.BadSignature)
    must_reject("wrong-key-name", w, dns.tsig.Key(dns.name.from_text("other-key.example."), secret, key.algorithm), expect=(dns.tsig.BadKey, dns.message.UnknownTSIGKey))
    other_alg = next(a for a in ALGS if a != algtext.lower())
    must_reject("wrong-algorithm", w, dns.tsig.Key(key.name, secret, dns.name.from_text(other_alg)), expect=(dns.tsig.BadAlgorithm, dns.tsig.BadSignature))
    # keyring dict without the key / keyring None
    ctx.count("mon.fault_rejected")
    for kr, nm in (({dns.name.from_text("zz."): secret}, "unknown-key-in-keyring"), (None, "no-keyring")):
        try:
            with swap_attr(dns.message, "time", Clock(now)):
                dns.message.from_wire(w, keyring=kr)
            ctx.violation(f"altered-or-foreign-message-accepted:{nm}", "", case)
        except dns.exception.DNSException:
            pass
        except Exception as e:
            ctx.violation(f"fault-raised-foreign:{nm}:" + core.exc_sig(e), repr(e), case)
    # time window: |t - now| <= fudge accepted, beyond rejected
    f = s.fudge
    must_accept("time-at-fudge-boundary+", w, now + f)
    if now - f >= 0:
        must_accept("time-at-fudge-boundary-", w, now - f)
    must_reject("time-beyond-fudge+", w, clock_now=now + f + 1, expect=dns.tsig.BadTime)
    if now - f - 1 >= 0:
        must_reject("time-beyond-fudge-", w, clock_now=now - f - 1, expect=dns.tsig.BadTime)
    # TSIG error codes: re-sign a TSIG carrying an error with the reference so only the error matters
    for code, exc in ((16, dns.tsig.PeerBadSignature), (17, dns.tsig.PeerBadKey), (18, dns.tsig.PeerBadTime), (22, dns.tsig.PeerBadTruncation), (1, dns.tsig.PeerError)):
        base = s.stripped[:0] + w[:10] + struct.pack("!H", struct.unpack("!H", w[10:12])[0] - 1) + w[12:s.tsig_start]
        data = struct.pack("!H", s.orig_id) + base[2:] + RT.tsig_vars(kl, 0, RT.alg_labels(algtext), now, f, code, b"")
        macb = RT.mac(algtext, secret, data)
        ew = RT.append_tsig(base, kl, RT.tsig_rdata(RT.alg_labels(algtext), now, f, macb, s.orig_id, code, b""))
        must_reject(f"tsig-error-{code}", ew, expect=exc)
    # structure: TSIG not last, wrong class, in another section
    base = w[:10] + struct.pack("!H", struct.unpack("!H", w[10:12])[0] - 1) + w[12:s.tsig_start]
    tsig_rr = w[s.tsig_start:]
    extra = b"\x01a\x00" + struct.pack("!HHIH", 1, 1, 0, 4) + b"\x01\x02\x03\x04"
    ar = struct.unpack("!H", base[10:12])[0]
    must_reject("tsig-not-last", base[:10] + struct.pack("!H", ar + 2) + base[12:] + tsig_rr + extra, expect=dns.exception.FormError)
    klass_off = s.tsig_start + RN.from_wire(w, s.tsig_start)[1] + 2
    wc = bytearray(w)
    wc[klass_off:klass_off + 2] = struct.pack("!H", 1)
    must_reject("tsig-class-not-any", bytes(wc), expect=dns.exception.FormError)
    an = struct.unpack("!H", base[6:8])[0]
    if struct.unpack("!HH", base[8:12]) == (0, 0):
        must_reject("tsig-in-answer-section", base[:6] + struct.pack("!H", an + 1) + base[8:] + tsig_rr, expect=dns.exception.FormError)
    # truncated MAC (prefix of the right MAC)
    if len(s.mac) > 10:
        short = s.mac[: len(s.mac) // 2]
        ew = RT.append_tsig(base, kl, RT.tsig_rdata(RT.alg_labels(algtext), now, f, short, s.orig_id, 0, s.other))
        must_reject("mac-prefix-only", ew)


def check_bitflips(ctx, rng, signed, stride=1):
    w, kl, secret, key, now, algtext, s = signed
    clock = Clock(now)
    nbits = len(w) * 8
    case_base = {"kind": "flip", "alg": algtext, "wire": w}
    accepted_ok = 0
    for bit in range(0, nbits, stride):
        if ctx.expired(1.0):
            break
        ctx.count("evaluations")
        ctx.count("mon.bitflip")
        b = bytearray(w)
        b[bit // 8] ^= 0x80 >> (bit % 8)
        fw = bytes(b)
        ref_ok, why = RT.verify(fw, kl, algtext, secret, now)
        m, e = lib_validate(fw, key, clock)
        region = region_of(s, w, bit)
        ctx.seen(("flip", algtext[:11], region, ref_ok, e is None))
        if e is None and not m.had_tsig:
            # the flip turned the TSIG RR into something else: the message parses as an *unsigned* message
            # (had_tsig False), which is not a verification
            ctx.count("obs.flip_makes_message_unsigned")
            continue
        if e is None and not ref_ok:
            # which field of the TSIG RR?
            where = region
            if region == "tsig-rr":
                off = bit // 8 - s.tsig_start
                nl = RN.from_wire(w, s.tsig_start)[1]  # encoded (possibly compressed) owner length
                where = "tsig-owner" if off < nl else "tsig-type" if off < nl + 2 else "tsig-class" if off < nl + 4 else "tsig-ttl" if off < nl + 8 else "tsig-rdlen" if off < nl + 10 else "tsig-rdata"
            ctx.violation(f"bit-flip-accepted:{where}", f"bit {bit} (byte {bit // 8}) reference says {why}", dict(case_base, bit=bit))
        elif e is not None and not isinstance(e, dns.exception.DNSException):
            ctx.violation("bit-flip-raised-foreign:" + core.exc_sig(e), f"bit {bit}: {e!r}", dict(case_base, bit=bit))
        elif e is None:
            accepted_ok += 1
    ctx.count("obs.flips_still_authentic", accepted_ok)


def check_sequence(ctx, rng, algtext):
    """multi-message exchange: (a) library signs every envelope, reference verifies and recomputes; (b) reference signs with
    any subset of intermediates unsigned, library validates; (c) altered/ reordered sequences are rejected"""
    ctx.count("evaluations")
    kl, secret, key = mkkey(rng, algtext)
    now = rng.choice((1_700_000_000, 2**33 + 5, rng.randrange(2**40)))
    clock = Clock(now)
    case = {"kind": "seq", "alg": algtext}
    n = rng.randint(2, 6)
    try:
        req_mac = bytes(rng.randrange(256) for _ in range(len(RT.mac(algtext, secret, b"x"))))
        # (a) library-signed
        ctxl = None
        prior = None
        wires = []
        for i in range(n):
            ctx.count("mon.multi_envelope")
            m, _ = GM.gen_message(rng, kind="response", size="small")
            # the original id the signer digested may differ from the header id (a forwarder re-numbered the message)
            oid_l = rng.randrange(65536) if rng.random() < 0.5 else None
            w = sign_with_lib(m, key, clock, req_mac if i == 0 else b"", orig_id=oid_l, multi=True, ctx=ctxl)
            ctxl = m.tsig_ctx
            s = RT.Split(w)
            want = RT.mac(algtext, secret, RT.digest_input(s, request_mac=req_mac) if i == 0 else RT.digest_input(s, prior_mac=prior, timers_only=True))
            ctx.count("mon.mac_equals_reference")
            if s.mac != want:
                ctx.violation(f"multi-envelope-mac-differs-from-rfc8945:{'first' if i == 0 else 'subsequent'}:{algtext}", f"envelope {i}: lib {s.mac.hex()} ref {want.hex()}", dict(case, wire=w))
                return
            if i == 0:
                # the same message object signed again as the first envelope of a (new) exchange is again a first envelope,
                # whatever signing context an earlier rendering left behind in the object
                w_again = sign_with_lib(m, key, clock, req_mac, orig_id=oid_l, multi=True, ctx=None)
                s2 = RT.Split(w_again)  # (records may be shuffled differently: the reference is recomputed over these octets)
                if s2.mac != RT.mac(algtext, secret, RT.digest_input(s2, request_mac=req_mac)):
                    ctx.violation(f"first-envelope-mac-wrong-when-rendered-again:{algtext}", f"lib {s2.mac.hex()}", dict(case, wire=w_again))
                    return
            prior = s.mac
            wires.append(w)
        vctx = None
        for i, w in enumerate(wires):
            m2, e = lib_validate(w, key, clock, req_mac if i == 0 else b"", multi=True, ctx=vctx)
            if e is not None:
                ctx.violation(f"genuine-multi-envelope-rejected:{algtext}:" + core.exc_sig(e), f"envelope {i}: {e!r}", dict(case, wire=w))
                return
            vctx = m2.tsig_ctx
        # swapped order must fail
        if n >= 3:
            ctx.count("mon.fault_rejected")
            vctx = None
            order = [0, 2, 1] + list(range(3, n))
            failed = False
            for i in order:
                m2, e = lib_validate(wires[i], key, clock, req_mac if i == 0 else b"", multi=True, ctx=vctx)
                if e is not None:
                    failed = True
                    break
                vctx = m2.tsig_ctx
            if not failed:
                ctx.violation("reordered-multi-envelope-sequence-accepted", "", case)
        # (b) reference-signed with unsigned intermediates
        ctx.count("mon.lib_accepts_ref_sequence")
        unsigned_mask = [False] + [rng.random() < 0.5 for _ in range(n - 2)] + [False]
        prior = None
        pending = []
        seq = []
        for i in range(n):
            m, _ = GM.gen_message(rng, kind="response", size="small")
            base = m.to_wire(max_size=65535)
            if unsigned_mask[i]:
                pending.append(base)
                seq.append((base, False))
                continue
            oid = struct.unpack("!H", base[:2])[0]
            stripped = base
            if rng.random() < 0.5:
                oid = rng.randrange(65536)  # header id differs from the TSIG original id: the digest covers the original id
                stripped = struct.pack("!H", oid) + base[2:]
            if i == 0:
                data = struct.pack("!H", len(req_mac)) + req_mac + stripped + RT.tsig_vars(kl, 0, RT.alg_labels(algtext), now, 300, 0, b"")
            else:
                data = struct.pack("!H", len(prior)) + prior + b"".join(pending) + stripped + RT.timers(now, 300)
            macb = RT.mac(algtext, secret, data)
            w = RT.append_tsig(base, kl, RT.tsig_rdata(RT.alg_labels(algtext), now, 300, macb, oid, 0, b""))
            seq.append((w, True))
            prior = macb
            pending = []
        vctx = None
        for i, (w, signed) in enumerate(seq):
            m2, e = lib_validate(w, key, clock, req_mac if i == 0 else b"", multi=True, ctx=vctx)
            if e is not None:
                ctx.violation(f"reference-signed-sequence-rejected:{'signed' if signed else 'unsigned'}-envelope:{algtext}:" + core.exc_sig(e), f"envelope {i} of mask {unsigned_mask}: {e!r}", dict(case, wire=w))
                return
            vctx = m2.tsig_ctx
        # (c) drop an unsigned intermediate: the next signed envelope must fail
        if any(unsigned_mask):
            ctx.count("mon.fault_rejected")
            drop = unsigned_mask.index(True)
            vctx = None
            failed = False
            for i, (w, signed) in enumerate(seq):
                if i == drop:
                    continue
                m2, e = lib_validate(w, key, clock, req_mac if i == 0 else b"", multi=True, ctx=vctx)
                if e is not None:
                    failed = True
                    break
                vctx = m2.tsig_ctx
            if not failed:
                ctx.violation("sequence-with-dropped-unsigned-envelope-accepted", f"mask {unsigned_mask}", case)
        # (d) a continuation envelope whose TSIG names ANOTHER key of the keyring (or, with a keyring of bare secrets, another
        # algorithm): the digest of a continuation does not cover the key name or the algorithm, so only the binding of the
        # exchange to the key it started with rejects it
        ctx.count("mon.continuation_names_another_key")
        kl2 = (kl[0] + b"x",) + tuple(kl[1:]) if rng.random() < 0.5 else (bytes([kl[0][0] ^ 0x02]) + kl[0][1:],) + tuple(kl[1:])
        secret2 = bytes(rng.randrange(256) for _ in range(16))
        other_alg = rng.choice([a for a in ("hmac-sha256.", "hmac-sha512.", "hmac-sha1.") if a != algtext])
        for variant in ("other-key-name", "other-algorithm-bare-secret-keyring", "other-algorithm-keyring-of-keys", "other-algorithm-single-key"):
            if variant == "other-key-name":
                ring = {dns.name.Name(kl): key, dns.name.Name(kl2): dns.tsig.Key(dns.name.Name(kl2), secret2, dns.name.from_text(algtext))}
            elif variant == "other-algorithm-keyring-of-keys":
                ring = {dns.name.Name(kl): key}
            elif variant == "other-algorithm-single-key":
                ring = key
            else:
                ring = {dns.name.Name(kl): secret}
            last_w, _ = seq[-1]
            sp = RT.Split(last_w)
            base = last_w[:10] + struct.pack("!H", struct.unpack("!H", last_w[10:12])[0] - 1) + last_w[12:sp.tsig_start]
            # same MAC, same times, same original id; only the owner (or the algorithm field) differs
            if variant == "other-key-name":
                forged = RT.append_tsig(base, kl2, RT.tsig_rdata(sp.algname, sp.time_signed, sp.fudge, sp.mac, sp.orig_id, sp.error, sp.other))
            else:
                forged = RT.append_tsig(base, kl, RT.tsig_rdata(RT.alg_labels(other_alg), sp.time_signed, sp.fudge, sp.mac, sp.orig_id, sp.error, sp.other))
            vctx = None
            failed_early = False
            for i, (w, signed) in enumerate(seq[:-1]):
                try:
                    with swap_attr(dns.message, "time", clock):
                        m2 = dns.message.from_wire(w, keyring=ring, request_mac=req_mac if i == 0 else b"", multi=True, tsig_ctx=vctx)
                except Exception as e:
                    failed_early = True
                    if variant == "other-key-name":
                        ctx.violation(f"genuine-multi-envelope-rejected:dict-keyring:{algtext}:" + core.exc_sig(e), f"envelope {i}: {e!r}", dict(case, wire=w))
                    break
                vctx = m2.tsig_ctx
            if failed_early:
                continue
            try:
                with swap_attr(dns.message, "time", clock):
                    m2 = dns.message.from_wire(forged, keyring=ring, multi=True, tsig_ctx=vctx)
                ctx.violation(f"altered-or-foreign-message-accepted:continuation-envelope-{variant}", f"exchange started with key {RN.to_text(kl)} {algtext}; envelope {n - 1} accepted as signed by {m2.keyname} {m2.keyalgorithm}", dict(case, wire=forged))
                return
            except dns.exception.DNSException:
                ctx.count("mon.fault_rejected")
            except Exception as e:
                ctx.violation(f"continuation-envelope-{variant}-raised-foreign:" + core.exc_sig(e), repr(e), dict(case, wire=forged))
                return
        ctx.seen(("seq", algtext, n, tuple(unsigned_mask)))
    except Exception as e:
        ctx.violation(f"tsig-sequence-raised:{algtext}:" + core.exc_sig(e), repr(e), case)


def check_direct_renderer(ctx, rng, algtext):
    """dns.renderer.Renderer.add_tsig / add_multi_tsig called directly with a Key object (its documented low-level use), the
    algorithm parameter left at its default: the TSIG record must name the key's algorithm and carry the RFC 8945 MAC"""
    import dns.renderer

    ctx.count("evaluations")
    ctx.count("mon.direct_renderer_signing")
    kl, secret, key = mkkey(rng, algtext)
    now = rng.choice((1_700_000_000, 2**33 + 5))
    clock = Clock(now)
    case = {"kind": "direct-renderer", "alg": algtext}
    req_mac = b"" if rng.random() < 0.5 else bytes(rng.randrange(256) for _ in range(len(RT.mac(algtext, secret, b"x"))))
    multi = rng.random() < 0.4
    try:
        r = dns.renderer.Renderer(id=rng.randrange(65536), flags=0x8000)
        r.add_question(dns.name.from_text("direct.example."), dns.rdatatype.A)
        r.write_header()
        with swap_attr(dns.renderer, "time", clock):
            if multi:
                r.add_multi_tsig(None, key.name, key, 300, r.id, 0, b"", req_mac)
            else:
                r.add_tsig(key.name, key, 300, r.id, 0, b"", req_mac)
        w = r.get_wire()
        s = RT.Split(w)
    except Exception as e:
        ctx.violation(f"direct-renderer-signing-raised:{algtext.lower()}:" + core.exc_sig(e), repr(e), case)
        return
    ctx.seen(("direct-renderer", algtext.lower(), multi, bool(req_mac)))
    want = RT.mac(algtext, secret, RT.digest_input(s, request_mac=req_mac))
    if s.mac != want:
        ctx.violation(f"direct-renderer-mac-differs-from-rfc8945:{algtext.lower()}", f"lib {s.mac.hex()} ref {want.hex()}", dict(case, wire=w))
        return
    m2, e = lib_validate(w, key, clock, req_mac, multi=multi)
    if e is not None:
        ctx.violation(f"direct-renderer-signed-message-rejected:{algtext.lower()}:" + core.exc_sig(e), repr(e), dict(case, wire=w))


def run(spec, ctx):
    rng = ctx.rng
    flips_done = 0
    for i in range(40):
        check_direct_renderer(ctx, rng, ALGS[(i + spec["alg_offset"]) % len(ALGS)])
    for i in range(spec["n_msgs"]):
        if ctx.expired(0.35):
            break
        algtext = ALGS[(i + spec["alg_offset"]) % len(ALGS)]
        if rng.random() < 0.3:
            algtext = algtext.upper()
        signed = check_single(ctx, rng, algtext)
        if signed is None:
            continue
        check_faults(ctx, rng, signed)
        if i < 1:
            ctx.sample({"alg": algtext, "signed_wire": signed[0].hex()[:300], "tsig_start": signed[6].tsig_start})
    for i in range(spec["n_seq"]):
        if ctx.expired(0.5):
            break
        check_sequence(ctx, rng, ALGS[(i + spec["alg_offset"]) % len(ALGS)])
    for i in range(spec["n_flip_msgs"]):
        if ctx.expired(0.95):
            break
        signed = check_single(ctx, rng, ALGS[(i * 5 + spec["alg_offset"]) % len(ALGS)])
        if signed is not None and len(signed[0]) < 1500:
            check_bitflips(ctx, rng, signed)
            ctx.count("exhaustive.messages_with_every_bit_flipped")


def replay(case, ctx):
    ctx.notes.append("TSIG cases need the generated key: rerun the tier with the recorded seed")
