"""C15 — key-free DNSSEC computations equal an independent RFC reference."""

import random
import struct

import dns.dnssec
import dns.exception
import dns.name
import dns.rdata
import dns.rdataclass
import dns.rdataset
import dns.rdatatype
import dns.rrset
import dns.versioned
import dns.zone

from vlib import core
from vlib.gen import names as GN
from vlib.gen import rdata as GR
from vlib.gen import zones as GZ
from vlib.ref import dnssec as RD
from vlib.ref import names as RN

PROP = "C15"
LEVEL = "exploration"
RULE = (
    "differential against vlib/ref/dnssec.py (anchored on the RFC 5155 App. A and RFC 4034 §5.4 vectors): canonical form of "
    "every type-table value with random case in embedded names; RRSIG signing input for every label count 0..n of generated "
    "owners (wildcards included); DS/CDS digests for SHA-1/256/384 and key tags incl. algorithm 1 and odd key lengths; NSEC3 "
    "hashes over salts 0..255 octets and iterations 0..150 (2500 in thorough); ZONEMD SIMPLE digests of generated zones "
    "(relativized and absolute); NSEC chains from sign_zone(rrset_signer=recorder) on generated zones with delegations, glue, "
    "nested cuts and ENTs. Distinct by (mode, type or shape class, boundary tags)."
)
RULE += " " + (
    "Also: sorted(rdataset) is the canonical order; DS helpers with owners relative to an origin; ZONEMD with a published digest and its signature; the signing input relative to an origin above the signer."
)
ASSUMPTIONS = [
    "reference implementations in vlib/ref/dnssec.py and the canonical-form flags of the type table (RFC 4034 §6.2 minus NSEC)",
    "NSEC TTL and pre-existing NSEC/RRSIG records are outside the statement and not judged",
]
REQUIRED = ["mon.canonical_order_through_comparison", "mon.zonemd_with_published_digest_and_its_signature", "mon.nsec_chain_resigned", "mon.zonemd_signature_rich", "mon.rrsig_input_relativized", "mon.canonical_form", "mon.rrsig_input", "mon.ds", "mon.key_tag", "mon.nsec3", "mon.zonemd", "mon.nsec_chain", "mon.signer_callback"]
BUDGET = {"quick": 40.0, "thorough": 420.0}


def shards(tier, seed):
    mult = 1 if tier == "quick" else 90
    types = GR.ALL_TYPES
    return [{"types": types[i::16], "n_canon": 250 * mult, "n_rrsig": 200 * mult, "n_ds": 300 * mult, "n_nsec3": 200 * mult, "n_zone": 80 * mult,
             "max_iter": 150 if tier == "quick" else 2500} for i in range(16)]


def mk(l):
    return dns.name.Name(l)


def check_canonical(ctx, val, origin):
    ctx.count("evaluations")
    ctx.count("mon.canonical_form")
    t = val.tname
    case = {"kind": "canon", "type": t}
    try:
        rd = GR.build(val)
        o = mk(origin) if origin else None
        got = rd.to_digestable(o)
        want = GR.ref_wire(val.parts, origin, canonical=True)
        ctx.seen(("canon", t, val.tags))
        if got != want:
            # which name deviates?
            plain = GR.ref_wire(val.parts, origin, canonical=False)
            kind = "downcases-name-not-in-rfc4034-6.2" if len(got) == len(want) and got.lower() == want.lower() and got != want and got == _fold_names(val, origin) else "other"
            ctx.violation(f"canonical-form-differs:{t}:{kind}", f"lib={got.hex()} ref={want.hex()} plain={plain.hex()}", case)
        if len(got) != len(GR.ref_wire(val.parts, origin)):
            ctx.violation(f"canonical-form-uses-compression-or-length-differs:{t}", f"lib={got.hex()}", case)
    except Exception as e:
        ctx.violation(f"canonical-raised:{t}:" + core.exc_sig(e), repr(e), case)


def _fold_names(val, origin):
    parts = [GR.NameRef(p.labels, p.comp, True) if isinstance(p, GR.NameRef) else p for p in val.parts]
    return GR.ref_wire(parts, origin, canonical=True)


def check_rrsig_input(ctx, rng, t):
    """a small rdataset of type t, an owner, every labels value"""
    ctx.count("evaluations")
    case = {"kind": "rrsig", "type": t}
    origin = GN.origin(rng, plain=True)
    vo = origin if rng.random() < 0.6 and len(origin) > 1 else None  # embedded names partly under the zone origin (absolute spelling)
    vals = [GR.gen(rng, t, vo, False) for _ in range(rng.choice((1, 2, 3, 5)))]
    vals = [v for v in vals if v.rdclass == vals[0].rdclass and v.rdtype == vals[0].rdtype]
    try:
        rds = dns.rdataset.Rdataset(vals[0].rdclass, vals[0].rdtype)
        ttl = rng.choice((0, 300, 2**31 - 1))
        for v in vals:
            rd = GR.build(v)
            if rd.rdtype in (dns.rdatatype.RRSIG, dns.rdatatype.SIG) and len(rds) and rd.covers() != rds.covers:
                continue
            rds.add(rd, ttl)
        owner = GN.rel_labels(rng, 120, shape=rng.choice(("short", "mid"))) + origin
        if rng.random() < 0.3:
            owner = (b"*",) + owner[1:] if len(owner) > 1 else owner
        owner = GN.case_variant(rng, owner)
        if not RN.fits(owner):
            return
        signer = GN.case_variant(rng, origin)
        n = len(owner) - 1
        for labels in list(range(0, n + 2)):
            ctx.count("mon.rrsig_input")
            alg, ottl, exp, inc, kt = rng.randrange(256), rng.choice((0, 300, 86400)), rng.randrange(2**32), rng.randrange(2**32), rng.randrange(65536)
            sig = dns.rdata.from_wire(1, dns.rdatatype.RRSIG, struct.pack("!HBBIIIH", rds.rdtype, alg, labels, ottl, exp, inc, kt) + RN.to_wire(signer) + b"sig", 0, 18 + RN.wire_len(signer) + 3)
            fixed = struct.pack("!HBBIIIH", rds.rdtype, alg, labels, ottl, exp, inc, kt)
            want = None
            try:
                want = RD.rrsig_signing_input(owner, int(rds.rdtype), int(rds.rdclass), fixed, signer, labels, ottl,
                                              [GR.ref_wire(v.parts, None, canonical=True) for v in vals if GR.build(v) in rds])
            except RD.RefReject:
                pass
            try:
                got = dns.dnssec._make_rrsig_signature_data((mk(owner), rds), sig)
            except dns.exception.DNSException as e:
                got = None
            if labels == 0 and len(rds) > 1 and t not in ("LP", "CH-A"):
                # the canonical order of the set as the comparison operators give it (sorted(rdataset), min, <): RFC 4034 6.3,
                # i.e. by the canonical (lower-cased where 6.2 says so) RDATA octets
                ctx.count("mon.canonical_order_through_comparison")
                lib_order = [rd.to_digestable() for rd in sorted(rds)]
                if lib_order != sorted(lib_order):
                    ctx.violation(f"record-set-order-through-comparison-not-canonical:{t}", f"owner={owner!r}: {[x.hex()[:40] for x in lib_order]}", case)
            # the same RRset held the way a relativized zone holds it (owner and embedded names relative to the origin where they
            # lie under it) with the origin passed along: the signing input is the same octets
            if got is not None and t not in GR.META_TYPES and len(origin) > 1 and labels == n:
                ctx.count("mon.rrsig_input_relativized")
                try:
                    o = mk(origin)
                    rds_rel = dns.rdataset.Rdataset(rds.rdclass, rds.rdtype)
                    for v in vals:
                        if GR.build(v) in rds:
                            rds_rel.add(GR.build(GZ.norm_val(v, origin, True)), ttl)
                    got_rel = dns.dnssec._make_rrsig_signature_data((mk(owner).relativize(o), rds_rel), sig, o)
                    if got_rel != got and not any(GR.case_variant_of_origin(v, origin) for v in vals):
                        ctx.violation(f"rrsig-signing-input-differs-when-relativized:{t if t in ('LP', 'CH-A') else '*'}", f"owner={owner!r} origin={origin!r} type={t}", case)
                    # ... and relative to an origin ABOVE the signer (the signer's name is then relative but not empty)
                    if len(origin) > 2:
                        ctx.count("mon.rrsig_input_relative_to_an_origin_above_the_signer")
                        o2l = tuple(origin[1:])
                        o2 = mk(o2l)
                        sw = struct.pack("!HBBIIIH", rds.rdtype, alg, labels, ottl, exp, inc, kt) + RN.to_wire(signer) + b"sig"
                        sig2 = dns.rdata.from_wire(1, dns.rdatatype.RRSIG, sw, 0, len(sw), o2)
                        rds2 = dns.rdataset.Rdataset(rds.rdclass, rds.rdtype)
                        for v in vals:
                            if GR.build(v) in rds:
                                rds2.add(GR.build(GZ.norm_val(v, o2l, True)), ttl)
                        got2 = dns.dnssec._make_rrsig_signature_data((mk(owner).relativize(o2), rds2), sig2, o2)
                        if got2 != got and not any(GR.case_variant_of_origin(v, o2l) for v in vals) and not sig2.signer.is_absolute():
                            ctx.violation("rrsig-signing-input-differs-when-relativized:signer-below-the-origin", f"owner={owner!r} signer={signer!r} origin={o2l!r} type={t}", case)
                except dns.exception.DNSException as e:
                    ctx.violation("rrsig-input-relativized-raised:" + core.exc_sig(e), repr(e), case)
            ctx.seen(("rrsig", t if t in ("LP", "CH-A") else "*", labels - n, owner[0] == b"*"))
            if (got is None) != (want is None):
                ctx.violation(f"rrsig-input-accept-reject-differs:{'wild' if owner[0] == b'*' else 'plain'}", f"owner={owner!r} labels={labels}: lib {'rejects' if got is None else 'accepts'}, reference {'rejects' if want is None else 'accepts'}", case)
            elif got is not None and got != want:
                folded = None
                if t in ("LP", "CH-A"):
                    # causal diagnosis: is the whole difference (content and, with it, the canonical order of the
                    # records) explained by this type's names being lower-cased?
                    folded = RD.rrsig_signing_input(owner, int(rds.rdtype), int(rds.rdclass), fixed, signer, labels, ottl,
                                                    [_fold_names(v, None) for v in vals if GR.build(v) in rds])
                if folded is not None and got == folded:
                    ctx.violation(f"canonical-form-differs:{t}:downcases-name-not-in-rfc4034-6.2", "via signing input", case)
                else:
                    ctx.violation(f"rrsig-signing-input-differs:{t}", f"owner={owner!r} labels={labels} lib={got.hex()} ref={want.hex()}", case)
    except Exception as e:
        ctx.violation(f"rrsig-input-raised:{t}:" + core.exc_sig(e), repr(e), case)


def check_ds(ctx, rng):
    ctx.count("evaluations")
    case = {"kind": "ds"}
    owner = GN.case_variant(rng, GN.rel_labels(rng, 200, shape=rng.choice(("short", "mid", "empty"))) + (b"",))
    flags, proto = rng.choice((256, 257, 0, 65535)), rng.choice((3, 0, 255))
    alg = rng.choice((1, 5, 8, 13, 15, 253, 0, 255))
    key = bytes(rng.randrange(256) for _ in range(rng.choice((0, 1, 2, 3, 4, 31, 32, 33, 64, 65, 130, 259))))
    rdata = struct.pack("!HBB", flags, proto, alg) + key
    try:
        dk = dns.rdata.from_wire(1, rng.choice((dns.rdatatype.DNSKEY, dns.rdatatype.CDNSKEY)), rdata, 0, len(rdata))
        ctx.count("mon.key_tag")
        want_tag = RD.key_tag(rdata)
        if want_tag is not None:
            got_tag = dns.dnssec.key_id(dk)
            if got_tag != want_tag:
                ctx.violation(f"key-tag-differs:alg{'1' if alg == 1 else 'N'}", f"rdata={rdata.hex()} lib={got_tag} ref={want_tag}", case)
        else:
            return
        for dt, name in ((1, "SHA1"), (2, "SHA256"), (4, "SHA384")):
            ctx.count("mon.ds")
            ds = dns.dnssec.make_ds(mk(owner), dk, rng.choice((name, name.lower(), dt)), policy=dns.dnssec.allow_all_policy)
            want = RD.ds_digest(owner, rdata, dt)
            if ds.digest != want or ds.key_tag != want_tag or ds.algorithm != alg or ds.digest_type != dt:
                ctx.violation(f"ds-digest-differs:{name}", f"owner={owner!r} rdata={rdata.hex()} lib={ds.digest.hex()} ref={want.hex()}", case)
            if dt != 1:
                cds = dns.dnssec.make_cds(mk(owner), dk, name)
                if cds.digest != want or cds.rdtype != dns.rdatatype.CDS:
                    ctx.violation("cds-digest-differs", f"owner={owner!r}", case)
        rds = dns.rdataset.Rdataset(1, dk.rdtype)
        rds.add(dk, 300)
        out = dns.dnssec.make_ds_rdataset((mk(owner), rds), {"SHA256", "SHA384"})
        if {(int(d.digest_type), d.digest) for d in out} != {(2, RD.ds_digest(owner, rdata, 2)), (4, RD.ds_digest(owner, rdata, 4))}:
            ctx.violation("ds-rdataset-differs", f"owner={owner!r}", case)
        # "make a DS record set": the set and every record in it are of type DS (CDS is what make_cds_rdataset is for),
        # and the CDS -> DS conversion gives DS records too
        ctx.count("mon.ds_rdataset_type")
        if int(out.rdtype) != 43 or any(int(d.rdtype) != 43 for d in out):
            ctx.violation("make_ds_rdataset-returns-other-type", f"rdataset type {int(out.rdtype)}, records {sorted({int(d.rdtype) for d in out})}", case)
        cds_set = dns.dnssec.dnskey_rdataset_to_cds_rdataset(mk(owner), rds, "SHA256")
        if int(cds_set.rdtype) != 59 or any(int(d.rdtype) != 59 for d in cds_set):
            ctx.violation("dnskey_rdataset_to_cds_rdataset-returns-other-type", f"rdataset type {int(cds_set.rdtype)}", case)
        back = dns.dnssec.make_ds_rdataset((mk(owner), cds_set), {"SHA256"})
        if int(back.rdtype) != 43 or any(int(d.rdtype) != 43 for d in back) or {d.digest for d in back} != {RD.ds_digest(owner, rdata, 2)}:
            ctx.violation("ds-from-cds-rdataset-wrong", f"rdataset type {int(back.rdtype)}", case)
        # the owner given as a name relative to an origin (a Name object or text) is the same owner
        if len(owner) > 2 and dk.rdtype == dns.rdatatype.DNSKEY:
            ctx.count("mon.ds_owner_relative_to_origin")
            cut = rng.randrange(1, len(owner) - 1)
            rel, org = mk(owner[:cut]), mk(owner[cut:])
            for how, nm in (("Name", rel), ("text", rel.to_text())):
                try:
                    ds_rel = dns.dnssec.make_ds(nm, dk, "SHA256", origin=org)
                except Exception as e:
                    ctx.violation(f"ds-with-relative-owner-and-origin-raised:{how}:" + core.exc_sig(e), f"owner {rel} origin {org}: {e!r}", case)
                    break
                if ds_rel.digest != RD.ds_digest(owner, rdata, 2):
                    ctx.violation(f"ds-digest-differs:relative-owner:{how}", f"owner {rel} origin {org}", case)
                    break
            # the record-set helpers take the same (owner, origin) spellings
            try:
                cds_rel = dns.dnssec.dnskey_rdataset_to_cds_rdataset(rel.to_text(), rds, "SHA256", origin=org)
                if {d.digest for d in cds_rel} != {RD.ds_digest(owner, rdata, 2)}:
                    ctx.violation("ds-digest-differs:relative-owner:text:cds-rdataset-helper", f"owner {rel} origin {org}", case)
                ds_rel_set = dns.dnssec.make_ds_rdataset((rel, rds), {"SHA256"}, origin=org)
                if {d.digest for d in ds_rel_set} != {RD.ds_digest(owner, rdata, 2)}:
                    ctx.violation("ds-digest-differs:relative-owner:Name:ds-rdataset-helper", f"owner {rel} origin {org}", case)
            except Exception as e:
                ctx.violation("ds-with-relative-owner-and-origin-raised:rdataset-helper:" + core.exc_sig(e), f"owner {rel} origin {org}: {e!r}", case)
        # the published-key twin of the set (CDNSKEY): same fields, its own type, for the set and for every record
        if dk.rdtype == dns.rdatatype.DNSKEY:
            ctx.count("mon.cdnskey_rdataset_type")
            cset = dns.dnssec.dnskey_rdataset_to_cdnskey_rdataset(rds)
            if int(cset.rdtype) != 60 or any(int(d.rdtype) != 60 for d in cset) or [d.to_wire() for d in cset] != [d.to_wire() for d in rds]:
                ctx.violation("dnskey_rdataset_to_cdnskey_rdataset-returns-other-type", f"rdataset type {int(cset.rdtype)}, records {sorted({int(d.rdtype) for d in cset})}", case)
        ctx.seen(("ds", alg, len(key) % 2, len(owner)))
    except Exception as e:
        ctx.violation("ds-raised:" + core.exc_sig(e), f"rdata={rdata.hex()}: {e!r}", case)


def check_nsec3(ctx, rng, max_iter):
    ctx.count("evaluations")
    ctx.count("mon.nsec3")
    labels = GN.case_variant(rng, GN.rel_labels(rng, 254, shape=rng.choice(("short", "mid", "full", "empty"))) + (b"",))
    salt = bytes(rng.randrange(256) for _ in range(rng.choice((0, 1, 4, 8, 255, rng.randrange(256)))))
    it = rng.choice((0, 1, 2, 12, 150, rng.randrange(max_iter + 1)))
    case = {"kind": "nsec3", "labels": list(labels), "salt": salt, "it": it}
    try:
        form = rng.choice(("bytes", "hex", "HEX", "none" if not salt else "bytes"))
        arg = salt if form == "bytes" else salt.hex() if form == "hex" else salt.hex().upper() if form == "HEX" else None
        got = dns.dnssec.nsec3_hash(mk(labels), arg, it, rng.choice((1, "SHA1", "sha1")))
        want = RD.nsec3_hash(labels, salt, it)
        ctx.seen(("nsec3", len(salt) > 0, min(it, 3), form))
        if got != want:
            ctx.violation("nsec3-hash-differs", f"labels={labels!r} salt={salt.hex()} it={it}: lib={got} ref={want}", case)
    except Exception as e:
        ctx.violation("nsec3-raised:" + core.exc_sig(e), repr(e), case)


def mz_rrs(mz):
    for exact, sets in mz.nodes.values():
        for (rdtype, covers), (ttl, vals) in sets.items():
            for v in vals:
                yield exact, rdtype, covers, v.rdclass, ttl, GR.ref_wire(v.parts, None, canonical=True)


def check_zone(ctx, rng):
    ctx.count("evaluations")
    mz = GZ.gen_zone(rng, plain=True, types=[t for t in GZ.SAFE_TYPES if t not in ("LP", "ZONEMD")])
    relativize = rng.random() < 0.5
    case = {"kind": "zone", "relativize": relativize, "text": GZ.mz_to_text(mz)}
    try:
        z = GZ.build_lib_zone(mz, relativize)
        # ZONEMD
        for alg in (1, 2):
            ctx.count("mon.zonemd")
            zmd = z.compute_digest(alg)
            want = RD.zonemd_simple(mz.origin, mz_rrs(mz), alg)
            if zmd.digest != want:
                ctx.violation(f"zonemd-digest-differs:{'relativized' if relativize else 'absolute'}", f"alg={alg} lib={zmd.digest.hex()} ref={want.hex()}", case)
            else:
                z.verify_digest(zmd)
                # a ZONEMD at the apex must not change the digest
                soa_serial = z.get_soa().serial
                if zmd.serial != soa_serial:
                    ctx.violation("zonemd-serial-wrong", "", case)
        ctx.seen(("zonemd", relativize, len(mz.nodes) // 4))
        # a signed-looking zone: several RRSIG sets (different covered types) per name, stored in random order
        mzs = GZ.gen_zone(rng, plain=True, types=["A", "TXT", "RRSIG", "RRSIG", "RRSIG", "MX", "RRSIG"])
        for _exact, _sets in mzs.nodes.values():
            _sets.pop((46, 5), None)  # RRSIG(CNAME) is CNAME-like for the other-data rule of nodes: it would evict its neighbours (C09's subject)
        # ... with a published digest: a ZONEMD set at the apex and the signature covering it (both left out of the digest, RFC 8976
        # 3.3.1), and a signature covering ZONEMD somewhere else (which is ordinary data)
        try:
            base = GZ.simple_val(rng, "RRSIG", mzs.origin, True)
            for where in (tuple(mzs.origin), (b"elsewhere",) + tuple(mzs.origin)):
                args = [63] + list(base.args[1:])
                parts = [struct.pack("!H", 63)] + list(base.parts[1:])
                mzs.add(where, GR.Val(1, 46, "RRSIG", args, parts, base.tags), 300)
            mzs.add(tuple(mzs.origin), GZ.simple_val(rng, "ZONEMD", mzs.origin, True), 300)
            ctx.count("mon.zonemd_with_published_digest_and_its_signature")
        except Exception:
            pass
        zs = GZ.build_lib_zone(mzs, relativize, order=rng)
        for alg in (1, 2):
            ctx.count("mon.zonemd")
            ctx.count("mon.zonemd_signature_rich")
            if zs.compute_digest(alg).digest != RD.zonemd_simple(mzs.origin, mz_rrs(mzs), alg):
                ctx.violation(f"zonemd-digest-differs:{'relativized' if relativize else 'absolute'}:several-rrsig-sets-per-name", f"alg={alg}", dict(case, text=GZ.mz_to_text(mzs)))
        # NSEC chain through sign_zone with a recording signer (versioned zone: sign_zone needs a writer)
        vz = GZ.build_lib_zone(mz, relativize, zone_factory=dns.versioned.Zone)
        if rng.random() < 0.3:
            # a plain zone that also holds nodes without any data (what find_node(create=True) leaves behind): they own nothing,
            # so they are no part of the chain
            vz = GZ.build_lib_zone(mz, relativize)
            present = {tuple(RN.fold(l) for l in e) for e, _s in mz.nodes.values()}
            cands = [tuple(e[1:]) for e, _s in mz.nodes.values() if len(e) > len(mz.origin) + 1] + [(GN.simple_label(rng),) + tuple(mz.origin) for _ in range(2)]
            for c in cands[: rng.randint(1, 3)]:
                if tuple(RN.fold(l) for l in c) not in present and RN.fits(c):
                    vz.find_node(GZ.lib_name(c, mz.origin, relativize), create=True)
                    ctx.count("mon.zones_with_dataless_nodes")
        seen = []

        def signer(txn, rrset):
            seen.append((rrset.name, int(rrset.rdtype), int(rrset.covers), len(rrset)))

        with vz.writer() as txn:
            dns.dnssec.sign_zone(vz, txn=txn, keys=None, add_dnskey=False, rrset_signer=signer)
        ctx.count("mon.nsec_chain")
        origin = mk(mz.origin)
        owners_types = {exact: {k[0] for k, s in sets.items() if s[1]} for exact, sets in mz.nodes.values()}
        owners_types = {k: v for k, v in owners_types.items() if v}
        chain = RD.nsec_chain(mz.origin, owners_types)
        want = {}
        for owner, nxt, types in chain:
            want[tuple(RN.fold(l) for l in owner)] = (tuple(RN.fold(l) for l in nxt), RD.bitmap(types))
        got = {}
        with vz.reader() as txn:
            for name in txn.iterate_names():
                rds = txn.get(name, dns.rdatatype.NSEC)
                if rds is None:
                    continue
                absn = name.derelativize(origin)
                k = tuple(RN.fold(l) for l in absn.labels)
                if len(rds) != 1:
                    ctx.violation("nsec-chain-several-nsec-at-name", f"{absn}", case)
                    continue
                rd = rds[0]
                nxt = rd.next.derelativize(origin)
                import io
                f = io.BytesIO()
                dns.rdtypes.util.Bitmap(rd.windows).to_wire(f)
                got[k] = (tuple(RN.fold(l) for l in nxt.labels), f.getvalue())
        cuts = {tuple(RN.fold(l) for l in n) for n, _, t in chain if 2 in owners_types[n] and tuple(RN.fold(l) for l in n) != tuple(RN.fold(l) for l in mz.origin)}
        ctx.seen(("nsec", relativize, len(chain) // 3, len(cuts)))
        if set(got) != set(want):
            extra = set(got) - set(want)
            missing = set(want) - set(got)
            ctx.violation(f"nsec-chain-name-set-differs:{'extra' if extra else ''}{'missing' if missing else ''}", f"extra={[RN.to_text(x) for x in extra]} missing={[RN.to_text(x) for x in missing]}", case)
        else:
            for k in want:
                if got[k][0] != want[k][0]:
                    ctx.violation("nsec-chain-next-differs", f"{RN.to_text(k)}: lib next {RN.to_text(got[k][0])} ref {RN.to_text(want[k][0])}", case)
                    break
                if got[k][1] != want[k][1]:
                    where = "at-delegation" if k in cuts else "authoritative-name"
                    ctx.violation(f"nsec-bitmap-differs:{where}", f"{RN.to_text(k)}: lib {got[k][1].hex()} ref {want[k][1].hex()}", case)
                    break
        # signer callback: exactly the authoritative RRsets (+ the new NSECs)
        ctx.count("mon.signer_callback")
        want_signed = set()
        for owner, nxt, types in chain:
            fk = tuple(RN.fold(l) for l in owner)
            for (rdtype, covers), (ttl, vals) in mz.sets(owner).items():
                if not vals or rdtype == 46:
                    continue
                if fk in cuts and rdtype != 43:
                    continue
                want_signed.add((fk, rdtype))
            want_signed.add((fk, 47))
        got_signed = set()
        for name, rdtype, covers, n in seen:
            absn = name.derelativize(origin)
            got_signed.add((tuple(RN.fold(l) for l in absn.labels), rdtype))
        if got_signed != want_signed:
            extra = got_signed - want_signed
            missing = want_signed - got_signed
            kinds = sorted({("glue-or-occluded" if not any(e[0] == w[0] for w in want_signed) else "at-cut" if e[0] in cuts else "other") for e in extra} | {"missing" for _ in missing})
            ctx.violation(f"signer-callback-rrsets-differ:{'+'.join(kinds)}", f"extra={[(RN.to_text(a), b) for a, b in extra]} missing={[(RN.to_text(a), b) for a, b in missing]}", case)
        # --- the signed zone is edited and signed again: every NSEC that has to change is REPLACED (one NSEC per name), the
        # chain is again the reference chain of the new content
        new_owner = (b"zzz-new",) + tuple(mz.origin)
        if RN.fits(new_owner) and tuple(RN.fold(l) for l in new_owner) not in {tuple(RN.fold(l) for l in e) for e in owners_types}:
            ctx.count("mon.nsec_chain_resigned")
            with vz.writer() as txn:
                txn.add(GZ.lib_name(new_owner, mz.origin, relativize), 300, dns.rdata.from_text("IN", "A", "192.0.2.200"))
                txn.add(GZ.lib_name(tuple(mz.origin), mz.origin, relativize), 300, dns.rdata.from_text("IN", "TYPE65400", "\\# 1 00"))
                dns.dnssec.sign_zone(vz, txn=txn, keys=None, add_dnskey=False, rrset_signer=lambda t, r: None)
            ot2 = {k: set(v) for k, v in owners_types.items()}
            ot2[new_owner] = {1}
            apex_key = next(k for k in ot2 if tuple(RN.fold(l) for l in k) == tuple(RN.fold(l) for l in mz.origin))
            ot2[apex_key].add(65400)
            want2 = {tuple(RN.fold(l) for l in o): (tuple(RN.fold(l) for l in nx), RD.bitmap(ty)) for o, nx, ty in RD.nsec_chain(mz.origin, ot2)}
            got2 = {}
            with vz.reader() as txn:
                for name in txn.iterate_names():
                    rds = txn.get(name, dns.rdatatype.NSEC)
                    if rds is None:
                        continue
                    k = tuple(RN.fold(l) for l in name.derelativize(origin).labels)
                    if len(rds) != 1:
                        ctx.violation("nsec-chain-several-nsec-at-name:after-signing-again", f"{RN.to_text(k)}: {len(rds)} NSEC records", case)
                        got2 = None
                        break
                    import io
                    f = io.BytesIO()
                    dns.rdtypes.util.Bitmap(rds[0].windows).to_wire(f)
                    got2[k] = (tuple(RN.fold(l) for l in rds[0].next.derelativize(origin).labels), f.getvalue())
            if got2 is not None and got2 != want2:
                bad = [RN.to_text(k) for k in set(got2) | set(want2) if got2.get(k) != want2.get(k)]
                ctx.violation("nsec-chain-differs-after-signing-again", f"names {bad[:6]}", case)
    except Exception as e:
        ctx.violation("zone-dnssec-raised:" + core.exc_sig(e), repr(e), case)


def run(spec, ctx):
    rng = ctx.rng
    import dns.rdtypes.util  # noqa

    for t in spec["types"]:
        for i in range(spec["n_canon"]):
            if ctx.expired(0.3):
                break
            use_origin = rng.random() < 0.3
            origin = GN.origin(rng, plain=True) if use_origin else None
            if origin == (b"",):
                origin = None
            val = GR.gen(rng, t, origin, relative_ok=origin is not None)
            check_canonical(ctx, val, origin)
            if i == 0 and len(ctx.samples) < 3:
                ctx.sample({"canonical_form_of": t, "ref": GR.ref_wire(val.parts, origin, canonical=True).hex()[:120]})
        if t not in ("OPT",):
            for i in range(max(1, spec["n_rrsig"] // 4)):
                if ctx.expired(0.5):
                    break
                check_rrsig_input(ctx, rng, t)
    for i in range(spec["n_ds"]):
        if ctx.expired(0.6):
            break
        check_ds(ctx, rng)
    for i in range(spec["n_nsec3"]):
        if ctx.expired(0.75):
            break
        check_nsec3(ctx, rng, spec["max_iter"])
    for i in range(spec["n_zone"]):
        if ctx.expired(1.0):
            break
        check_zone(ctx, rng)


def replay(case, ctx):
    if case.get("kind") == "nsec3":
        labels = tuple(case["labels"])
        got = dns.dnssec.nsec3_hash(mk(labels), case["salt"], case["it"], 1)
        ctx.count("mon.nsec3")
        if got != RD.nsec3_hash(labels, case["salt"], case["it"]):
            ctx.violation("nsec3-hash-differs", "replayed", case)
    else:
        ctx.notes.append("regenerate from seed")
