"""C16 — stub resolution reaches the documented outcome under every fault sequence."""

import asyncio
import itertools

import dns.asyncresolver
import dns.exception
import dns.flags
import dns.message
import dns.name
import dns.nameserver
import dns.rcode
import dns.rdataclass
import dns.rdatatype
import dns.resolver
import dns.rrset

from vlib import core
from vlib.ref import names as RN
from vlib.mon.hooks import swap_attr

PROP = "C16"
LEVEL = "fault_enumeration"
RULE = (
    "resolutions are driven by outcome scripts: scripted dns.nameserver.Nameserver subclasses pop the next outcome (answer with a "
    "CNAME chain of 0-3 links, no-data with SOA, NXDOMAIN, SERVFAIL, REFUSED, FORMERR/NOTIMP rcodes, YXDOMAIN, malformed -> FormError, "
    "truncated -> Truncated, timeout (advances the virtual clock by the offered timeout), OSError, EOFError, over-long CNAME chain, "
    "answer with NXDOMAIN) and log (server, tcp, qname, timeout, virtual now). The same script is replayed by an independent "
    "reference decision procedure (B4); query log, result, canonical name, expiration - now, and cache contents are compared, and "
    "stand-alone log invariants are checked; the asynchronous resolver runs the same script and must produce the identical log "
    "and result. Settings: 1-4 servers, search lists 0-3, ndots 0-3, relative/absolute names, retry_servfail, tcp, "
    "raise_on_no_answer, cache none/Cache/LRUCache (pre-seeded or not), lifetime 0.5-10 s. Exhaustive: 2 servers x all scripts "
    "of length <= 4 (quick) / 5 (thorough) over 8 outcome kinds. Distinct by (outcome-kind sequence prefix, settings class, result class)."
)
RULE += " " + (
    "Also: long relative names whose search-list combinations exceed 255 octets; the shipped Do53Nameserver's query / async_query compared call by call through recording transport functions. resolve_name with a relative name and a search list."
)
ASSUMPTIONS = [
    "reference decision procedure B4 in this file (DESIGN.md Appendix B4)",
    "'a broken server is never asked again' is scoped to one candidate name; the back-off sleep may overshoot the lifetime by at most 2 s",
    "dns.resolver.time / dns.asyncresolver.time are a virtual clock; responses are rendered to wire and parsed back before they are returned",
]
REQUIRED = ["mon.resolve_name_with_search_list", "mon.do53_nameserver_twins", "mon.resolve_name", "mon.sync_vs_reference", "mon.async_vs_sync", "mon.log_invariants", "mon.cache_contents", "mon.exhaustive_scripts"]
BUDGET = {"quick": 45.0, "thorough": 480.0}

KINDS = ["answer", "nodata", "nxdomain", "servfail", "refused", "timeout", "malformed", "truncated", "yxdomain", "oserror", "eoferror", "notimp", "chain-too-long", "answer-for-nxdomain", "cname1", "cname3", "cname-nodata", "cname-nxdomain"]
EXH_KINDS = ["answer", "nodata", "nxdomain", "servfail", "timeout", "malformed", "truncated", "refused"]
MAX_CHAIN = 16


class Clock:
    def __init__(self, now=1_000_000.0):
        self.now = now

    def time(self):
        return self.now

    def sleep(self, s):
        self.now += s


def shards(tier, seed):
    mult = 1 if tier == "quick" else 24
    return [{"n": 2500 * mult, "exh_len": 4 if tier == "quick" else 5, "part": i, "parts": 16} for i in range(16)]


# ------------------------------------------------------------------------------------------ scripted world


class Script:
    def __init__(self, outcomes, clock):
        self.outcomes = list(outcomes)
        self.pos = 0
        self.clock = clock
        self.log = []

    def next(self):
        if self.pos < len(self.outcomes):
            o = self.outcomes[self.pos]
        else:
            o = ("servfail", {})  # scripts are padded with SERVFAIL
        self.pos += 1
        return o


def build_response(request, kind, params):
    """returns a parsed-from-wire response message for the outcome"""
    q = request.question[0]
    r = dns.message.make_response(request)
    ttl = params.get("ttl", 300)
    if kind in ("answer", "cname1", "cname3", "chain-too-long", "answer-for-nxdomain"):
        name = q.name
        links = {"answer": 0, "answer-for-nxdomain": 0, "cname1": 1, "cname3": 3, "chain-too-long": MAX_CHAIN + 1}[kind]
        cttls = params.get("cname_ttls", [120, 60, 240])
        for i in range(links):
            tgt = dns.name.from_text(f"c{i}.target.example.")
            rr = r.find_rrset(r.answer, name, q.rdclass, dns.rdatatype.CNAME, create=True)
            rr.add(dns.rdata.from_text(q.rdclass, "CNAME", tgt.to_text()), cttls[i % len(cttls)])
            name = tgt
        if kind != "chain-too-long":
            rr = r.find_rrset(r.answer, name, q.rdclass, q.rdtype, create=True)
            text = {dns.rdatatype.A: "10.1.2.3", dns.rdatatype.AAAA: "2001:db8::1", dns.rdatatype.TXT: '"x"', dns.rdatatype.MX: "10 mail.example."}.get(q.rdtype, "10.1.2.3")
            rr.add(dns.rdata.from_text(q.rdclass, q.rdtype, text), ttl)
        if kind == "answer-for-nxdomain":
            r.set_rcode(dns.rcode.NXDOMAIN)
    elif kind in ("cname-nodata", "cname-nxdomain"):
        # an alias chain that leaves the queried name's zone and ends in "no data" / "no such name": the SOA that bounds the
        # negative TTL is the one covering the END of the chain
        name = q.name
        cttls = params.get("cname_ttls", [120, 60, 240])
        for i in range(params.get("links", 1)):
            tgt = dns.name.from_text(f"c{i}.target.example.")
            rr = r.find_rrset(r.answer, name, q.rdclass, dns.rdatatype.CNAME, create=True)
            rr.add(dns.rdata.from_text(q.rdclass, "CNAME", tgt.to_text()), cttls[i % len(cttls)])
            name = tgt
        if params.get("soa", True):
            rr = r.find_rrset(r.authority, dns.name.from_text("target.example."), q.rdclass, dns.rdatatype.SOA, create=True)
            rr.add(dns.rdata.from_text(q.rdclass, "SOA", f"ns. h. 1 2 3 4 {params.get('minimum', 77)}"), params.get("soa_ttl", 500))
        if kind == "cname-nxdomain":
            r.set_rcode(dns.rcode.NXDOMAIN)
    elif kind in ("nodata", "nxdomain"):
        if params.get("soa", True):
            zone = dns.name.Name(q.name.labels[-2:]) if len(q.name) > 2 else q.name
            rr = r.find_rrset(r.authority, zone, q.rdclass, dns.rdatatype.SOA, create=True)
            rr.add(dns.rdata.from_text(q.rdclass, "SOA", f"ns. h. 1 2 3 4 {params.get('minimum', 77)}"), params.get("soa_ttl", 500))
        if kind == "nxdomain":
            r.set_rcode(dns.rcode.NXDOMAIN)
    elif kind == "servfail":
        r.set_rcode(dns.rcode.SERVFAIL)
    elif kind == "refused":
        r.set_rcode(dns.rcode.REFUSED)
    elif kind == "notimp":
        r.set_rcode(dns.rcode.NOTIMP)
    elif kind == "yxdomain":
        r.set_rcode(dns.rcode.YXDOMAIN)
    w = r.to_wire()
    return dns.message.from_wire(w)


class ScriptedNS(dns.nameserver.Nameserver):
    def __init__(self, idx, script, always_tcp=False):
        super().__init__()
        self.idx = idx
        self.script = script
        self.always_tcp = always_tcp

    def __str__(self):
        return f"scripted-{self.idx}"

    def kind(self):
        return "scripted"

    def is_always_max_size(self):
        return self.always_tcp

    def answer_nameserver(self):
        return f"192.0.2.{self.idx + 1}"

    def answer_port(self):
        return 53

    def _do(self, request, timeout, max_size):
        s = self.script
        kind, params = s.next()
        s.log.append((self.idx, bool(max_size), request.question[0].name.to_text(), round(timeout, 6), round(s.clock.now, 6), kind))
        if kind == "timeout":
            s.clock.now += timeout
            raise dns.exception.Timeout(timeout=timeout)
        if kind == "malformed":
            raise dns.exception.FormError("scripted malformed reply")
        if kind == "truncated":
            raise dns.message.Truncated(message=dns.message.make_response(request))
        if kind == "oserror":
            raise OSError("scripted network error")
        if kind == "eoferror":
            raise EOFError("scripted EOF")
        s.clock.now += params.get("rtt", 0.01)
        return build_response(request, kind, params)

    def query(self, request, timeout, source, source_port, max_size, one_rr_per_rrset=False, ignore_trailing=False):
        return self._do(request, timeout, max_size)

    async def async_query(self, request, timeout, source, source_port, max_size, backend, one_rr_per_rrset=False, ignore_trailing=False):
        return self._do(request, timeout, max_size)


class FakeBackend:
    def __init__(self, clock):
        self.clock = clock

    def name(self):
        return "scripted"

    async def sleep(self, interval):
        self.clock.now += interval


# ------------------------------------------------------------------------------------------ reference decision procedure B4


def candidates(qname_labels, absolute, search, search_list, domain, ndots):
    if absolute:
        return [tuple(qname_labels)]
    q = tuple(qname_labels)
    absq = q + (b"",)
    if not search:
        return [absq]
    if search_list:
        sl = list(search_list)
    elif domain is not None and domain != (b"",):
        sl = [domain]
    else:
        sl = []
    nd = 1 if ndots is None else ndots
    # a search-list combination that is not a legal name (over 255 octets) is not a candidate; the others, and the name taken
    # as absolute, are still tried
    out = [q + tuple(s) for s in sl if RN.fits(q + tuple(s))]
    if len(q) > nd:
        out.insert(0, absq)
    else:
        out.append(absq)
    return out


def reference(cfg, outcomes):
    """returns (query log [(server, tcp, qname text, timeout, now, kind)], result tuple, cache puts)"""
    clock = cfg["start"]
    start = clock
    pos = 0
    log = []
    puts = {}
    nx = []
    lifetime = cfg["lifetime"]

    def text(labels):
        return dns.name.Name(labels).to_text()

    cands = candidates(cfg["qname"], cfg["absolute"], cfg["search"], cfg["search_list"], cfg["domain"], cfg["ndots"])
    cache = dict(cfg["preseed"])  # key (qname text, 'T'|'ANY') -> ('answer'|'nodata'|'nxdomain', expiration)
    for cand in cands:
        ct = text(cand)
        if cfg["cache"]:
            hit = cache.get((ct, "T"))
            if hit is not None and hit[1] > clock:
                if hit[0] == "nodata" and cfg["raise_on_no_answer"]:
                    return log, ("NoAnswer",), puts, clock
                return log, ("cached", hit[0], ct), puts, clock
            hit = cache.get((ct, "ANY"))
            if hit is not None and hit[1] > clock and hit[0] == "nxdomain":
                nx.append(ct)
                continue
        live = list(range(cfg["nservers"]))
        current = list(live)
        backoff = 0.10
        retry_tcp = None
        done = False
        while not done:
            if retry_tcp is not None:
                srv, tcp = retry_tcp, True
                retry_tcp = None
            else:
                if not current:
                    if not live:
                        return log, ("NoNameservers",), puts, clock
                    current = list(live)
                    clock += backoff
                    backoff = min(backoff * 2, 2)
                srv = current.pop(0)
                tcp = cfg["tcp"] or cfg["always_tcp"][srv]
            duration = clock - start
            if duration >= lifetime:
                return log, ("LifetimeTimeout",), puts, clock
            timeout = min(lifetime - duration, cfg["timeout"])
            kind, params = outcomes[pos] if pos < len(outcomes) else ("servfail", {})
            pos += 1
            log.append((srv, tcp, ct, round(timeout, 6), round(clock, 6), kind))
            if kind == "timeout":
                clock += timeout
                continue
            if kind in ("malformed", "oserror", "eoferror"):
                live.remove(srv)
                continue
            if kind == "truncated":
                if tcp:
                    live.remove(srv)
                else:
                    retry_tcp = srv
                continue
            clock += params.get("rtt", 0.01)
            if kind in ("answer", "cname1", "cname3"):
                links = {"answer": 0, "cname1": 1, "cname3": 3}[kind]
                cttls = params.get("cname_ttls", [120, 60, 240])
                minttl = min([params.get("ttl", 300)] + [cttls[i % len(cttls)] for i in range(links)])
                canon = ct if links == 0 else f"c{links - 1}.target.example."
                if cfg["cache"]:
                    puts[(ct, "T")] = ("answer", clock + minttl)
                return log, ("answer", canon, minttl), puts, clock
            if kind in ("chain-too-long", "answer-for-nxdomain"):
                live.remove(srv)
                continue
            chain = []
            if kind in ("cname-nodata", "cname-nxdomain"):
                cttls = params.get("cname_ttls", [120, 60, 240])
                chain = [cttls[i % len(cttls)] for i in range(params.get("links", 1))]
                kind = kind[6:]
            if kind == "nodata":
                minttl = 2**32 - 1  # no SOA to bound the negative TTL: the documented maximum TTL
                if params.get("soa", True):
                    minttl = min(params.get("soa_ttl", 500), params.get("minimum", 77))
                if chain:
                    minttl = min(chain + ([minttl] if params.get("soa", True) else []))
                if cfg["cache"]:
                    puts[(ct, "T")] = ("nodata", clock + minttl)
                if cfg["raise_on_no_answer"]:
                    return log, ("NoAnswer",), puts, clock
                return log, ("nodata", ct, minttl), puts, clock
            if kind == "nxdomain":
                minttl = 2**32 - 1  # no SOA to bound the negative TTL: the documented maximum TTL
                if params.get("soa", True):
                    minttl = min(params.get("soa_ttl", 500), params.get("minimum", 77))
                if chain:
                    minttl = min(chain + ([minttl] if params.get("soa", True) else []))
                if cfg["cache"]:
                    puts[(ct, "ANY")] = ("nxdomain", clock + minttl)
                nx.append(ct)
                done = True
                continue
            if kind == "yxdomain":
                return log, ("YXDOMAIN",), puts, clock
            if kind == "servfail" and cfg["retry_servfail"]:
                continue
            live.remove(srv)  # servfail (no retry), refused, notimp
    return log, ("NXDOMAIN", tuple(text(c) for c in cands)), puts, clock


# ------------------------------------------------------------------------------------------ library runs


def make_resolver(cls, cfg, script, clock):
    res = cls(configure=False)
    res.nameservers = [ScriptedNS(i, script, cfg["always_tcp"][i]) for i in range(cfg["nservers"])]
    res.search = [dns.name.Name(s) for s in cfg["search_list"]]
    res.domain = dns.name.Name(cfg["domain"]) if cfg["domain"] is not None else dns.name.root
    res.ndots = cfg["ndots"]
    res.timeout = cfg["timeout"]
    res.lifetime = cfg["lifetime"]
    res.retry_servfail = cfg["retry_servfail"]
    res.rotate = False
    res.use_search_by_default = False
    res.cache = None
    if cfg["cache"] == "cache":
        res.cache = dns.resolver.Cache()
    elif cfg["cache"] == "lru":
        res.cache = dns.resolver.LRUCache(50)
    return res


class FakeAnswer:
    """pre-seeded cache entries"""

    def __init__(self, kind, expiration, qname, rdtype="A", rdclass="IN"):
        self.expiration = expiration
        self.kind = kind
        self.rrset = None if kind != "answer" else dns.rrset.from_text(qname, 60, rdclass, rdtype, {"A": "10.9.9.9", "AAAA": "2001:db8::9", "TXT": '"seed"'}[rdtype])
        q = dns.message.make_query(qname, rdtype, rdclass)
        self.response = dns.message.make_response(q)
        if kind == "nxdomain":
            self.response.set_rcode(dns.rcode.NXDOMAIN)
        self.canonical_name = dns.name.from_text(qname)


def preseed(res, cfg):
    for (qt, which), (kind, exp) in cfg["preseed"].items():
        key = (dns.name.from_text(qt), dns.rdatatype.from_text(cfg["rdtype"]) if which == "T" else dns.rdatatype.ANY, dns.rdataclass.from_text(cfg["rdclass"]))
        res.cache.put(key, FakeAnswer(kind, exp, qt, cfg["rdtype"], cfg["rdclass"]))


def classify_result(fn, clock):
    try:
        a = fn()
    except dns.resolver.NXDOMAIN as e:
        return ("NXDOMAIN", tuple(n.to_text() for n in e.kwargs["qnames"]))
    except dns.resolver.NoAnswer:
        return ("NoAnswer",)
    except dns.resolver.YXDOMAIN:
        return ("YXDOMAIN",)
    except dns.resolver.NoNameservers:
        return ("NoNameservers",)
    except dns.resolver.LifetimeTimeout:
        return ("LifetimeTimeout",)
    if isinstance(a, FakeAnswer):
        return ("cached", a.kind, a.canonical_name.to_text())
    if a.rrset is None:
        return ("nodata", a.qname.to_text(), round(a.expiration - clock.now, 6))
    return ("answer", a.canonical_name.to_text(), round(a.expiration - clock.now, 6))


def run_sync(cfg, outcomes):
    clock = Clock(cfg["start"])
    script = Script(outcomes, clock)
    with swap_attr(dns.resolver, "time", clock):
        res = make_resolver(dns.resolver.Resolver, cfg, script, clock)
        if res.cache is not None:
            preseed(res, cfg)
        q = dns.name.Name(cfg["qname"])
        result = classify_result(lambda: res.resolve(q, cfg["rdtype"], cfg["rdclass"], tcp=cfg["tcp"], raise_on_no_answer=cfg["raise_on_no_answer"], search=cfg["search"]), clock)
        cache_state = cache_probe(res, cfg, clock)
    return script.log, result, cache_state, clock.now


def run_async(cfg, outcomes):
    clock = Clock(cfg["start"])
    script = Script(outcomes, clock)
    with swap_attr(dns.resolver, "time", clock), swap_attr(dns.asyncresolver, "time", clock):
        res = make_resolver(dns.asyncresolver.Resolver, cfg, script, clock)
        if res.cache is not None:
            preseed(res, cfg)
        q = dns.name.Name(cfg["qname"])
        backend = FakeBackend(clock)

        async def go():
            return await res.resolve(q, cfg["rdtype"], cfg["rdclass"], tcp=cfg["tcp"], raise_on_no_answer=cfg["raise_on_no_answer"], search=cfg["search"], backend=backend)

        holder = {}

        def call():
            loop = asyncio.new_event_loop()
            try:
                return loop.run_until_complete(go())
            finally:
                loop.close()

        result = classify_result(call, clock)
        cache_state = cache_probe(res, cfg, clock)
    return script.log, result, cache_state, clock.now


def cache_probe(res, cfg, clock):
    """what the cache holds for every candidate name (through the public get), as {(qname, 'T'|'ANY'): kind}"""
    if res.cache is None:
        return {}
    out = {}
    cands = candidates(cfg["qname"], cfg["absolute"], cfg["search"], cfg["search_list"], cfg["domain"], cfg["ndots"])
    for c in cands:
        n = dns.name.Name(c)
        # every (type, class) the cache could have been keyed with: only the queried type (or ANY, for name errors) in the
        # queried class may hold anything
        for tt in ("A", "AAAA", "TXT", "ANY"):
            for cc in ("IN", "CH", "HS"):
                a = res.cache.get((n, dns.rdatatype.from_text(tt), dns.rdataclass.from_text(cc)))
                if a is not None:
                    if isinstance(a, FakeAnswer):
                        k = a.kind
                    else:
                        k = "nxdomain" if a.response.rcode() == dns.rcode.NXDOMAIN else ("answer" if a.rrset is not None else "nodata")
                    which = "T" if (tt, cc) == (cfg["rdtype"], cfg["rdclass"]) else "ANY" if (tt, cc) == ("ANY", cfg["rdclass"]) else f"other-key:{tt}/{cc}"
                    out[(n.to_text(), which)] = (k, round(a.expiration, 6))
    return out


def gen_cfg(rng):
    nservers = rng.randint(1, 4)
    absolute = rng.random() < 0.4
    nl = rng.randint(1, 3)
    q = tuple(rng.choice((b"www", b"host", b"a", b"b")) for _ in range(nl))
    if not absolute and rng.random() < 0.06:
        # a long relative name: legal taken as absolute, too long with some (or all) of the search-list suffixes
        q = tuple(rng.choice((b"w", b"h")) * 61 for _ in range(4)) + ((b"x" * rng.choice((1, 3, 4, 5)),) if rng.random() < 0.7 else ())
    if absolute:
        q = q + (b"",)
    search_list = [(rng.choice((b"corp", b"lab", b"example")), b"test", b"") for _ in range(rng.choice((0, 0, 1, 2, 3)))]
    search_list = list(dict.fromkeys(search_list))
    start = 1_000_000.0
    cfg = {
        "nservers": nservers, "always_tcp": [rng.random() < 0.15 for _ in range(nservers)], "qname": q, "absolute": absolute,
        "search": rng.choice((True, True, False)), "search_list": search_list, "domain": rng.choice((None, (b"",), (b"dom", b"test", b""))),
        "ndots": rng.choice((None, 0, 1, 2, 3)), "retry_servfail": rng.random() < 0.4, "tcp": rng.random() < 0.2, "raise_on_no_answer": rng.random() < 0.6,
        "rdtype": "A", "rdclass": "IN",
        "cache": rng.choice((None, None, "cache", "lru")), "lifetime": rng.choice((0.5, 2.0, 5.0, 10.0)), "timeout": rng.choice((0.3, 1.0, 2.0)), "start": start, "preseed": {},
    }
    if rng.random() < 0.4:
        cfg["rdtype"], cfg["rdclass"] = rng.choice((("AAAA", "IN"), ("TXT", "IN"), ("TXT", "CH"), ("TXT", "CH"), ("TXT", "HS")))
    if cfg["cache"] and rng.random() < 0.5:
        cands = candidates(q, absolute, cfg["search"], search_list, cfg["domain"], cfg["ndots"])
        for c in cands:
            if rng.random() < 0.4:
                kind = rng.choice(("answer", "nodata", "nxdomain"))
                exp = start + rng.choice((-1.0, 0.0, 50.0))
                cfg["preseed"][(dns.name.Name(c).to_text(), "ANY" if kind == "nxdomain" else "T")] = (kind, exp)
    return cfg


def gen_outcomes(rng):
    n = rng.randint(0, 30)
    out = []
    for _ in range(n):
        k = rng.choice(KINDS + ["timeout", "servfail", "nxdomain", "truncated"])
        p = {"ttl": rng.choice((0, 1, 300, 86400)), "soa_ttl": rng.choice((5, 500)), "minimum": rng.choice((3, 77, 9999)), "soa": rng.random() < 0.8, "rtt": rng.choice((0.0, 0.01, 0.2)),
             "cname_ttls": [rng.choice((10, 120, 1000)) for _ in range(3)], "links": rng.choice((1, 1, 3))}
        out.append((k, p))
    return out


def check_resolve_name(ctx, rng, is_async):
    """resolve_name(): an AAAA resolution then an A resolution of the same name, sharing ONE lifetime.  The reference is the
    decision procedure applied twice, the second time with what is left of the lifetime."""
    ctx.count("evaluations")
    ctx.count("mon.resolve_name")
    cfg = gen_cfg(rng)
    with_search = rng.random() < 0.5 and len(cfg["qname"]) < 10
    if with_search:
        # a relative name and a search list: the AAAA lookup settles on one candidate, and the A lookup asks for THAT name
        cfg.update(cache=None, preseed={}, search=True, absolute=False, raise_on_no_answer=False, rdclass="IN")
        cfg["qname"] = tuple(l for l in cfg["qname"] if l != b"")
        if not cfg["search_list"]:
            cfg["search_list"] = [(b"corp", b"test", b""), (b"lab", b"test", b"")]
        ctx.count("mon.resolve_name_with_search_list")
    else:
        cfg.update(cache=None, preseed={}, search=False, absolute=True, raise_on_no_answer=False, rdclass="IN")
        cfg["qname"] = tuple(l for l in cfg["qname"] if l != b"") + (b"",)
    cfg["lifetime"] = rng.choice((2.0, 5.0, 10.0, 30.0))
    outcomes = [(rng.choice(("timeout", "timeout", "servfail", "answer", "answer", "nodata", "nxdomain", "truncated", "malformed", "refused")),
                 {"ttl": 300, "rtt": rng.choice((0.0, 0.01, 0.2)), "soa": True, "soa_ttl": 500, "minimum": 77, "cname_ttls": [60, 60, 60], "links": 1}) for _ in range(rng.randint(0, 14))]
    case = {"kind": "resolve_name", "async": is_async, "cfg": {k: (str(v) if not isinstance(v, (int, float, bool, type(None), str)) else v) for k, v in cfg.items()}, "outcomes": [o[0] for o in outcomes]}
    # reference
    cfg6 = dict(cfg, rdtype="AAAA")
    log6, res6, _p, end6 = reference(cfg6, outcomes)
    want_log, want = list(log6), None
    if res6[0] in ("answer", "nodata"):
        left = cfg["lifetime"] - (end6 - cfg["start"])
        if left <= 0:
            want = ("LifetimeTimeout",)
        else:
            cfg4 = dict(cfg, rdtype="A", start=end6, lifetime=left)
            if with_search and log6:
                settled = dns.name.from_text(log6[-1][2])
                cfg4.update(qname=tuple(settled.labels), absolute=True, search=False)
            log4, res4, _p, end4 = reference(cfg4, outcomes[len(log6):])
            want_log += log4
            if res4[0] in ("answer", "nodata"):
                want = ("host-answers", res6[0] == "answer", res4[0] == "answer")
            else:
                want = (res4[0],)
    else:
        want = (res6[0],)
    # library
    clock = Clock(cfg["start"])
    script = Script(outcomes, clock)
    got = None
    try:
        with swap_attr(dns.resolver, "time", clock), swap_attr(dns.asyncresolver, "time", clock):
            res = make_resolver(dns.asyncresolver.Resolver if is_async else dns.resolver.Resolver, cfg, script, clock)
            q = dns.name.Name(cfg["qname"])
            try:
                if is_async:
                    backend = FakeBackend(clock)
                    loop = asyncio.new_event_loop()
                    try:
                        ha = loop.run_until_complete(res.resolve_name(q, lifetime=cfg["lifetime"], tcp=cfg["tcp"], raise_on_no_answer=False, backend=backend, search=True if with_search else None))
                    finally:
                        loop.close()
                else:
                    ha = res.resolve_name(q, lifetime=cfg["lifetime"], tcp=cfg["tcp"], raise_on_no_answer=False, search=True if with_search else None)
                got = ("host-answers", ha.get(dns.rdatatype.AAAA) is not None and ha[dns.rdatatype.AAAA].rrset is not None, ha.get(dns.rdatatype.A) is not None and ha[dns.rdatatype.A].rrset is not None)
            except dns.resolver.NXDOMAIN:
                got = ("NXDOMAIN",)
            except dns.resolver.YXDOMAIN:
                got = ("YXDOMAIN",)
            except dns.resolver.NoNameservers:
                got = ("NoNameservers",)
            except dns.resolver.LifetimeTimeout:
                got = ("LifetimeTimeout",)
            except dns.resolver.NoAnswer:
                got = ("NoAnswer",)
    except Exception as e:
        ctx.violation("resolve_name-raised-unexpected:" + core.exc_sig(e), repr(e), case)
        return
    mode = "async" if is_async else "sync"
    ctx.seen(("resolve_name", mode, got[0], want[0], min(len(script.log), 6)))
    if script.log != want_log:
        i = next((k for k in range(min(len(script.log), len(want_log))) if script.log[k] != want_log[k]), min(len(script.log), len(want_log)))
        a = script.log[i] if i < len(script.log) else None
        b = want_log[i] if i < len(want_log) else None
        what = "extra-query" if b is None else "missing-query" if a is None else "timeout-offered" if a[3] != b[3] else "other"
        ctx.violation(f"resolve_name-query-log-differs-from-reference:{mode}:{what}", f"query {i}: library {a} reference {b}; outcome library {got} reference {want}", case)
        return
    if got[0] != want[0] or (got[0] == "host-answers" and got != want):
        ctx.violation(f"resolve_name-outcome-differs-from-reference:{mode}:{got[0]}-vs-{want[0]}", f"library {got} reference {want}", case)


def check_case(ctx, cfg, outcomes, tag):
    ctx.count("evaluations")
    case = {"kind": "script", "cfg": {k: (str(v) if not isinstance(v, (int, float, bool, type(None), str)) else v) for k, v in cfg.items()}, "outcomes": [o[0] for o in outcomes][:40], "params": [o[1] for o in outcomes][:12]}
    try:
        ref_log, ref_result, ref_puts, ref_end = reference(cfg, outcomes)
    except Exception as e:
        ctx.violation("harness-reference-raised:" + core.exc_sig(e), repr(e), case)
        return
    try:
        log, result, cache_state, end = run_sync(cfg, outcomes)
    except Exception as e:
        ctx.violation("resolver-raised-unexpected:" + core.exc_sig(e), repr(e), case)
        return
    ctx.count("mon.sync_vs_reference")
    ctx.seen((tag, tuple(o[0] for o in outcomes[:4]), cfg["nservers"], cfg["cache"] is not None, cfg["retry_servfail"], result[0], cfg["rdtype"] + "/" + cfg["rdclass"]))
    if log != ref_log:
        i = next((k for k in range(min(len(log), len(ref_log))) if log[k] != ref_log[k]), min(len(log), len(ref_log)))
        a = log[i] if i < len(log) else None
        b = ref_log[i] if i < len(ref_log) else None
        what = "extra-query" if b is None else "missing-query" if a is None else "server" if a[0] != b[0] else "transport" if a[1] != b[1] else "qname" if a[2] != b[2] else "timeout" if a[3] != b[3] else "time" if a[4] != b[4] else "outcome"
        prev = ref_log[i - 1][5] if i > 0 and i - 1 < len(ref_log) else "start"
        ctx.violation(f"query-log-differs-from-reference:{what}:after-{prev}", f"query {i}: library {a} reference {b}", case)
        return
    if normalize(result) != normalize(ref_result):
        ctx.violation(f"result-differs-from-reference:{result[0]}-vs-{ref_result[0]}", f"library {result} reference {ref_result}", case)
        return
    # stand-alone log invariants
    ctx.count("mon.log_invariants")
    removed = {}
    for i, (srv, tcp, qn, timeout, now, kind) in enumerate(log):
        if (srv, qn) in removed:
            ctx.violation(f"broken-server-asked-again:{removed[(srv, qn)]}", f"query {i} {log[i]}", case)
            return
        if kind in ("malformed", "oserror", "eoferror", "refused", "notimp", "chain-too-long", "answer-for-nxdomain") or (kind == "servfail" and not cfg["retry_servfail"]) or (kind == "truncated" and tcp):
            removed[(srv, qn)] = kind
        if kind == "truncated" and not tcp:
            if i + 1 < len(log) and not (log[i + 1][0] == srv and log[i + 1][1] is True and log[i + 1][2] == qn):
                ctx.violation("truncated-udp-not-retried-over-tcp-on-same-server", f"query {i} {log[i]} then {log[i + 1]}", case)
                return
        if timeout > min(cfg["timeout"], cfg["lifetime"] - (now - cfg["start"])) + 1e-6:
            ctx.violation("offered-timeout-exceeds-remaining-lifetime", f"query {i} {log[i]}", case)
            return
    if end - cfg["start"] > cfg["lifetime"] + 2.0 + 1e-6:
        ctx.violation("resolution-ran-beyond-lifetime", f"{end - cfg['start']} > {cfg['lifetime']} + 2", case)
        return
    # cache contents
    ctx.count("mon.cache_contents")
    want_cache = {}
    for k, (kind, exp) in cfg["preseed"].items():
        if exp > end and cfg["cache"]:
            want_cache[k] = (kind, round(exp, 6))
    for k, (kind, exp) in ref_puts.items():
        if exp > end:
            want_cache[k] = (kind, round(exp, 6))
        else:
            want_cache.pop(k, None)
    if cfg["cache"] and cache_state != want_cache:
        ctx.violation("cache-contents-differ-from-reference", f"library {cache_state} reference {want_cache}", case)
        return
    # async twin
    try:
        alog, aresult, acache, aend = run_async(cfg, outcomes)
    except Exception as e:
        ctx.violation("async-resolver-raised-unexpected:" + core.exc_sig(e), repr(e), case)
        return
    ctx.count("mon.async_vs_sync")
    if alog != log or normalize(aresult) != normalize(result) or acache != cache_state:
        what = "log" if alog != log else "result" if normalize(aresult) != normalize(result) else "cache"
        ctx.violation(f"async-resolver-differs-from-sync:{what}", f"sync {result} {log[-3:]} async {aresult} {alog[-3:]}", case)


def normalize(result):
    if result[0] in ("answer", "nodata") and len(result) == 3:
        return (result[0], result[1].lower(), round(float(result[2]), 3))
    if result[0] == "NXDOMAIN":
        return ("NXDOMAIN", tuple(x.lower() for x in result[1]))
    if result[0] == "cached":
        return ("cached", result[1], result[2].lower())
    return result


def check_do53_twins(ctx, rng):
    """the shipped plain-DNS nameserver class (what an address string in resolver.nameservers becomes): its synchronous and
    asynchronous query methods hand the transport layer the same request, destination and options -- which datagrams are
    skipped, whether truncation raises, how records are grouped -- so that both resolvers see the same outcome for the same
    traffic.  The transport functions are replaced by recorders for the duration of the call."""
    import dns.asyncquery
    import dns.nameserver
    import dns.query

    ctx.count("evaluations")
    ctx.count("mon.do53_nameserver_twins")
    addr = rng.choice(("192.0.2.53", "2001:db8::53"))
    port = rng.choice((53, 5353))
    ns = dns.nameserver.Do53Nameserver(addr, port)
    q = dns.message.make_query("twin.example.", rng.choice(("A", "TXT")))
    canned = dns.message.make_response(q)
    calls = {"sync": [], "async": []}

    def rec(which, transport):
        def f(request, where, **kw):
            kw.pop("backend", None)
            calls[which].append((transport, where, request is q, tuple(sorted((k, repr(v)) for k, v in kw.items()))))
            return canned
        return f

    def arec(transport):
        inner = rec("async", transport)

        async def f(request, where, **kw):
            return inner(request, where, **kw)
        return f

    timeout = rng.choice((0.5, 2.0))
    source, source_port = rng.choice((None, "192.0.2.1")), rng.choice((0, 4000))
    max_size = rng.random() < 0.5
    one, trailing = rng.random() < 0.5, rng.random() < 0.5
    case = {"kind": "do53-twins", "max_size": max_size, "one_rr_per_rrset": one, "ignore_trailing": trailing}
    try:
        with swap_attr(dns.query, "udp", rec("sync", "udp")), swap_attr(dns.query, "tcp", rec("sync", "tcp")), swap_attr(dns.asyncquery, "udp", arec("udp")), swap_attr(dns.asyncquery, "tcp", arec("tcp")):
            ns.query(q, timeout, source, source_port, max_size, one_rr_per_rrset=one, ignore_trailing=trailing)
            loop = asyncio.new_event_loop()
            try:
                loop.run_until_complete(ns.async_query(q, timeout, source, source_port, max_size, None, one_rr_per_rrset=one, ignore_trailing=trailing))
            finally:
                loop.close()
    except Exception as e:
        ctx.violation("do53-nameserver-query-raised:" + core.exc_sig(e), repr(e), case)
        return
    ctx.seen(("do53-twins", max_size, one, trailing))
    if calls["sync"] != calls["async"]:
        a, b = calls["sync"], calls["async"]
        diff = sorted(set(a[0][3]) ^ set(b[0][3])) if a and b and a[0][:3] == b[0][:3] else (a, b)
        ctx.violation(f"sync-and-async-nameserver-use-the-transport-differently:{'tcp' if max_size else 'udp'}", f"options that differ: {diff}", case)
        return
    want_transport = "tcp" if max_size else "udp"
    if [c[0] for c in calls["sync"]] != [want_transport]:
        ctx.violation("do53-nameserver-wrong-transport", f"max_size={max_size}: {[c[0] for c in calls['sync']]}", case)


def run(spec, ctx):
    rng = ctx.rng
    for i in range(60):
        check_do53_twins(ctx, rng)
    for i in range(spec["n"]):
        if ctx.expired(0.6):
            break
        cfg = gen_cfg(rng)
        outcomes = gen_outcomes(rng)
        check_case(ctx, cfg, outcomes, "random")
        if i % 8 == 0:
            check_resolve_name(ctx, rng, is_async=(i % 16 == 8))
        if i < 1:
            ctx.sample({"outcomes": [o[0] for o in outcomes], "nservers": cfg["nservers"], "search_list": [dns.name.Name(s).to_text() for s in cfg["search_list"]], "qname": dns.name.Name(cfg["qname"]).to_text()})
    # exhaustive: 2 servers x all scripts of length <= L over 8 outcome kinds
    base = {"nservers": 2, "always_tcp": [False, False], "qname": (b"www", b"example", b""), "absolute": True, "search": False, "search_list": [], "domain": None, "ndots": None,
            "retry_servfail": False, "tcp": False, "raise_on_no_answer": True, "rdtype": "A", "rdclass": "IN", "cache": None, "lifetime": 5.0, "timeout": 2.0, "start": 1_000_000.0, "preseed": {}}
    idx = 0
    complete = True
    for L in range(0, spec["exh_len"] + 1):
        for combo in itertools.product(EXH_KINDS, repeat=L):
            idx += 1
            if idx % spec["parts"] != spec["part"]:
                continue
            if ctx.expired(1.0):
                complete = False
                break
            ctx.count("mon.exhaustive_scripts")
            cfg = dict(base, retry_servfail=(idx // spec["parts"]) % 2 == 0)
            check_case(ctx, cfg, [(k, {}) for k in combo], "exh")
    if complete:
        ctx.count("exhaustive.partitions_completed")


def coverage_extra(tier, counters, tables):
    return {"exhaustive": False, "exhaustive_subspace": f"2 servers x all outcome scripts of length <= {4 if tier == 'quick' else 5} over {len(EXH_KINDS)} kinds: {int(counters.get('exhaustive.partitions_completed', 0))}/16 partitions completed"}


def replay(case, ctx):
    ctx.notes.append("scripts are regenerated from the seed")
