"""C17 — resolver caches never serve stale data, honour the LRU bound, are linearizable."""

import random
import sys
import threading

import dns.name
import dns.rdataclass
import dns.rdatatype
import dns.resolver

from vlib import core
from vlib.mon import sched as S
from vlib.mon.hooks import swap_attr

PROP = "C17"
LEVEL = "exploration"
RULE = (
    "sequential: random histories of get / put / flush(key|None) / set_max_size / reset_statistics / get_hits_for_key / statistics "
    "reads and virtual-clock advances over 2-8 keys with uniquely identified answers on dns.resolver.Cache and LRUCache, compared "
    "with a sequential cache model after every step (plus a structural witness of the LRU ring). Concurrent: 2-4 threads x 2-4 "
    "operations on one cache under the deterministic scheduler (shim lock for dns.resolver.threading, line-level yield injection in "
    "every cache method); the recorded call/return history is checked for linearizability against the same model by a memoised "
    "search. Plus an uncontrolled real-thread stress run. Distinct sequential histories by (cache class, op, outcome class); "
    "concurrent ones by thread trace."
)
RULE += " " + (
    "Also: statistics snapshots kept across traffic; a lookup whose acquisition of the cache lock takes virtual time (freshness judged inside the critical section)."
)
ASSUMPTIONS = [
    "sequential model in this file; set_max_size only stores the limit (the cache shrinks at the next insertion), so the bound is asserted after insertions",
    "dns.resolver.time is a virtual clock; it is frozen while a concurrent history runs",
    "linearizability search is exact for the history sizes used (<= 14 operations); exceeding the node budget is inconclusive, never a violation",
]
REQUIRED = ["mon.lookup_that_waited_for_the_lock", "mon.cleaning_pass_due_in_concurrent_part", "mon.seq_step", "mon.never_stale", "mon.lru_bound", "mon.stats_account", "mon.ring_witness", "mon.concurrent_history", "mon.linearizable", "mon.uncontrolled_ops"]
BUDGET = {"quick": 40.0, "thorough": 420.0}


class Clock:
    def __init__(self, now=1000.0):
        self.now = now

    def time(self):
        return self.now

    def sleep(self, s):
        self.now += s


class Ans:
    __slots__ = ("uid", "expiration")

    def __init__(self, uid, expiration):
        self.uid, self.expiration = uid, expiration

    def __repr__(self):
        return f"Ans({self.uid},exp={self.expiration})"


def shards(tier, seed):
    mult = 1 if tier == "quick" else 90
    return [{"n_seq": 250 * mult, "n_conc": 120 * mult, "stress": i == 15, "stress_ops": 40000 * mult} for i in range(16)]


KEYS = [(dns.name.from_text(f"k{i}.example."), dns.rdatatype.A, dns.rdataclass.IN) for i in range(8)]


# ------------------------------------------------------------------------------------------ sequential model


class Model:
    """state: tuple-friendly.  lru: recency order list of keys (front = most recent); data: key -> (uid, exp, hits)"""

    def __init__(self, kind, max_size=None, cleaning_interval=300.0, now=0.0):
        self.kind = kind
        self.data = {}
        self.order = []
        self.max_size = max_size
        self.hits = 0
        self.misses = 0
        self.cleaning_interval = cleaning_interval
        self.next_cleaning = now + cleaning_interval

    def clone(self):
        m = Model(self.kind, self.max_size)
        m.data = dict(self.data)
        m.order = list(self.order)
        m.hits, m.misses = self.hits, self.misses
        m.cleaning_interval, m.next_cleaning = self.cleaning_interval, self.next_cleaning
        return m

    def key(self):
        return (tuple(sorted(self.data.items())), tuple(self.order), self.max_size, self.hits, self.misses)

    def _clean(self, now):
        if self.kind == "cache" and self.next_cleaning <= now:
            for k in [k for k, v in self.data.items() if v[1] <= now]:
                del self.data[k]
            self.next_cleaning = now + self.cleaning_interval

    def apply(self, op, now):
        """returns the expected result"""
        name = op[0]
        if name == "get":
            k = op[1]
            self._clean(now)
            v = self.data.get(k)
            if v is None:
                self.misses += 1
                return None
            if v[1] <= now:
                if self.kind == "lru":
                    del self.data[k]
                    self.order.remove(k)
                self.misses += 1
                return None
            self.hits += 1
            if self.kind == "lru":
                self.order.remove(k)
                self.order.insert(0, k)
                self.data[k] = (v[0], v[1], v[2] + 1)
            return v[0]
        if name == "put":
            k, uid, exp = op[1], op[2], op[3]
            self._clean(now)
            if self.kind == "lru":
                if k in self.data:
                    del self.data[k]
                    self.order.remove(k)
                while len(self.data) >= self.max_size:
                    victim = self.order.pop()
                    del self.data[victim]
                self.order.insert(0, k)
            self.data[k] = (uid, exp, 0)
            return None
        if name == "flush":
            k = op[1]
            if k is None:
                self.data = {}
                self.order = []
                if self.kind == "cache":
                    self.next_cleaning = now + self.cleaning_interval
            elif k in self.data:
                del self.data[k]
                if self.kind == "lru":
                    self.order.remove(k)
            return None
        if name == "set_max_size":
            self.max_size = max(1, op[1])
            return None
        if name == "reset_statistics":
            self.hits = self.misses = 0
            return None
        if name == "hits":
            return self.hits
        if name == "misses":
            return self.misses
        if name == "snapshot":
            return (self.hits, self.misses)
        if name == "get_hits_for_key":
            v = self.data.get(op[1])
            if v is None or v[1] <= now:
                return 0
            return v[2]
        raise ValueError(name)


def lib_apply(cache, op, answers):
    name = op[0]
    if name == "get":
        r = cache.get(op[1])
        return None if r is None else r.uid
    if name == "put":
        a = Ans(op[2], op[3])
        answers[op[2]] = a
        return cache.put(op[1], a)
    if name == "flush":
        return cache.flush(op[1])
    if name == "set_max_size":
        return cache.set_max_size(op[1])
    if name == "reset_statistics":
        return cache.reset_statistics()
    if name == "hits":
        return cache.hits()
    if name == "misses":
        return cache.misses()
    if name == "snapshot":
        s = cache.get_statistics_snapshot()
        return (s.hits, s.misses)
    if name == "get_hits_for_key":
        return cache.get_hits_for_key(op[1])
    raise ValueError(name)


def gen_op(rng, kind, nkeys, now, uid):
    ops = ["get", "get", "get", "put", "put", "put", "flush", "flushall", "reset_statistics", "hits", "misses", "snapshot"]
    if kind == "lru":
        ops += ["set_max_size", "get_hits_for_key", "get_hits_for_key"]
    name = rng.choice(ops)
    k = KEYS[rng.randrange(nkeys)]
    if name == "get":
        return ("get", k)
    if name == "put":
        exp = now + rng.choice((-5.0, 0.0, 0.5, 1.0, 5.0, 30.0, 1000.0))
        return ("put", k, uid, exp)
    if name == "flush":
        return ("flush", k)
    if name == "flushall":
        return ("flush", None)
    if name == "set_max_size":
        return ("set_max_size", rng.choice((0, 1, 2, 3, 5, 100)))
    if name == "get_hits_for_key":
        return ("get_hits_for_key", k)
    return (name,)


def ring_witness(ctx, cache, case, tag):
    """optional structural witness: forward ring == reverse of backward ring, ring keys == dict keys"""
    sent = getattr(cache, "sentinel", None)
    data = getattr(cache, "data", None)
    if sent is None or data is None:
        return True
    ctx.count("mon.ring_witness")
    fwd, n = [], sent.next
    while n is not sent and len(fwd) <= len(data) + 2:
        fwd.append(n.key)
        n = n.next
    bwd, n = [], sent.prev
    while n is not sent and len(bwd) <= len(data) + 2:
        bwd.append(n.key)
        n = n.prev
    if fwd != list(reversed(bwd)) or set(fwd) != set(data.keys()) or len(fwd) != len(data):
        ctx.violation(f"lru-ring-inconsistent:{tag}", f"forward {len(fwd)} backward {len(bwd)} dict {len(data)}", case)
        return False
    for k, node in data.items():
        if node.key != k:
            ctx.violation(f"lru-ring-inconsistent:{tag}", "node.key differs from dict key", case)
            return False
    return True


def sequential_history(ctx, rng, kind):
    ctx.count("evaluations")
    clock = Clock(rng.choice((0.0, 1000.0, 1.7e9)))
    with swap_attr(dns.resolver, "time", clock):
        nkeys = rng.randint(2, 8)
        if kind == "lru":
            ms = rng.choice((1, 2, 3, 4, 100))
            cache = dns.resolver.LRUCache(ms)
            model = Model("lru", max(1, ms))
        else:
            ci = rng.choice((1.0, 10.0, 300.0))
            cache = dns.resolver.Cache(ci)
            model = Model("cache", None, ci, clock.now)
        answers = {}
        trace = []
        case = {"kind": "seq", "cache": kind, "trace": trace}
        gets = hits = 0
        kept_snapshots = []  # (snapshot object, (hits, misses) when it was taken): a snapshot does not move afterwards
        for step in range(rng.randint(5, 60)):
            if rng.random() < 0.25:
                dt = rng.choice((0.0, 0.4, 0.5, 1.0, 4.5, 5.0, 30.0, 301.0))
                clock.now += dt
                trace.append(("advance", dt))
            op = gen_op(rng, kind, nkeys, clock.now, step)
            trace.append((op[0],) + tuple(str(x) for x in op[1:]))
            ctx.count("mon.seq_step")
            want = model.apply(op, clock.now)
            try:
                got = lib_apply(cache, op, answers)
            except Exception as e:
                ctx.violation(f"cache-op-raised:{kind}:{op[0]}:" + core.exc_sig(e), repr(e), case)
                return
            if op[0] == "get":
                ctx.count("mon.never_stale")
                gets += 1
                if got is not None:
                    hits += 1
                    if answers[got].expiration <= clock.now:
                        ctx.violation(f"stale-answer-returned:{kind}", f"uid {got} expired at {answers[got].expiration}, now {clock.now}", case)
                        return
            if op[0] == "snapshot":
                snap = cache.get_statistics_snapshot()
                kept_snapshots.append((snap, (snap.hits, snap.misses)))
            for snap, was in kept_snapshots:
                if (snap.hits, snap.misses) != was:
                    ctx.violation(f"statistics-snapshot-changed-after-it-was-taken:{kind}", f"taken at {was}, now reads {(snap.hits, snap.misses)} after {op[0]}", case)
                    return
            if got != want:
                what = "stale-or-wrong-answer" if op[0] == "get" else op[0]
                ctx.violation(f"cache-differs-from-model:{kind}:{what}", f"step {step} {op[0]}: library {got!r} model {want!r}", case)
                return
            if op[0] == "put" and kind == "lru":
                ctx.count("mon.lru_bound")
                n = len(getattr(cache, "data", ()))
                if n > model.max_size:
                    ctx.violation("lru-holds-more-than-limit", f"{n} > {model.max_size}", case)
                    return
            if kind == "lru" and not ring_witness(ctx, cache, case, "seq"):
                return
            ctx.seen(("seq", kind, op[0], got is None))
        # accounting: hits + misses == lookups since the last reset (checked through the model equality above); cross-check totals
        ctx.count("mon.stats_account")
        s = cache.get_statistics_snapshot()
        if (s.hits, s.misses) != (model.hits, model.misses):
            ctx.violation(f"statistics-differ-from-model:{kind}", f"{(s.hits, s.misses)} vs {(model.hits, model.misses)}", case)
        # Cache periodic sweep removes only expired entries (witness on internals)
        if kind == "cache" and hasattr(cache, "data"):
            for k, v in cache.data.items():
                if k not in model.data:
                    ctx.violation("cache-internal-entries-differ-from-model", "", case)
                    break


# ------------------------------------------------------------------------------------------ concurrent histories


def linearizable(history, model0, now, budget=200000):
    """history: list of (call_seq, ret_seq, op, result).  Wing-Gong search with memoisation.  Returns True/False/None(budget)"""
    n = len(history)
    seen = set()
    nodes = [0]

    def rec(done_mask, model):
        if done_mask == (1 << n) - 1:
            return True
        key = (done_mask, model.key())
        if key in seen:
            return False
        seen.add(key)
        nodes[0] += 1
        if nodes[0] > budget:
            raise TimeoutError
        # minimal return time among pending ops: an op may go next only if it was called before that
        pending = [i for i in range(n) if not (done_mask >> i) & 1]
        min_ret = min(history[i][1] for i in pending)
        for i in pending:
            if history[i][0] > min_ret:
                continue
            m2 = model.clone()
            want = m2.apply(history[i][2], now)
            if want == history[i][3]:
                if rec(done_mask | (1 << i), m2):
                    return True
        return False

    try:
        return rec(0, model0)
    except TimeoutError:
        return None


def concurrent_history(ctx, rng, kind, inj):
    ctx.count("evaluations")
    clock = Clock(1000.0)
    strat = rng.choice((lambda: S.RandomStrategy(rng, stay=rng.choice((0.3, 0.7))), lambda: S.PCTStrategy(rng, 4, depth=rng.choice((1, 2, 3)), horizon=120)))()
    sc = S.Scheduler(strat, max_steps=20000)
    shim = S.ShimThreading(sc)
    saved_t, saved_time = dns.resolver.threading, dns.resolver.time
    dns.resolver.threading, dns.resolver.time = shim, clock
    try:
        nkeys = rng.randint(1, 3)
        if kind == "lru":
            ms = rng.choice((1, 2, 3))
            cache = dns.resolver.LRUCache(ms)
            model = Model("lru", ms)
        else:
            # half of the histories start with the periodic cleaning pass due, so that it runs inside the concurrent part
            interval = rng.choice((300.0, 5.0))
            cache = dns.resolver.Cache(interval)
            model = Model("cache", None, interval, clock.now)
        answers = {}
        # pre-populate sequentially
        uid = 0
        for _ in range(rng.randint(0, 3)):
            op = ("put", KEYS[rng.randrange(nkeys)], uid, clock.now + rng.choice((-1.0, 50.0)))
            uid += 1
            model.apply(op, clock.now)
            lib_apply(cache, op, answers)
        if kind != "lru" and interval == 5.0:
            for _ in range(rng.randint(0, 3)):  # some entries that the pass will have to delete, some it must keep
                op = ("put", KEYS[rng.randrange(3)], uid, clock.now + rng.choice((1.0, 2.0, 50.0)))
                uid += 1
                model.apply(op, clock.now)
                lib_apply(cache, op, answers)
            clock.now += 10.0
            ctx.count("mon.cleaning_pass_due_in_concurrent_part")
        nthreads = rng.randint(2, 4)
        history = []
        plans = []
        for t in range(nthreads):
            ops = []
            for _ in range(rng.randint(2, 4)):
                ops.append(gen_op(rng, kind, nkeys, clock.now, 100 + uid))
                uid += 1
            plans.append(ops)
        errors = []

        def body(tid, ops):
            def run():
                for op in ops:
                    call = len(sc.events)
                    sc.log("call", tid, op[0])
                    try:
                        res = lib_apply(cache, op, answers)
                    except S.SchedAbort:
                        raise
                    except BaseException as e:
                        errors.append((tid, op, e))
                        return
                    sc.log("ret", tid, op[0])
                    history.append((call, len(sc.events) - 1, op, res))
                    sc.pause("client:between-ops")

            return run

        for t, ops in enumerate(plans):
            sc.spawn(body(t, ops), f"c{t}")
        p = rng.choice((0.1, 0.3, 0.6, 1.0))
        inj.attach(sc, lambda: rng.random() < p)
        case = {"kind": "conc", "cache": kind, "plans": [[(o[0],) + tuple(str(x) for x in o[1:]) for o in ops] for ops in plans]}
        try:
            sc.run()
        except S.Deadlock as e:
            ctx.violation(f"cache-deadlock:{kind}", str(e), case)
            return
        except (S.StepLimit, S.Stall) as e:
            ctx.mark_inconclusive(str(e))
            return
        finally:
            inj.detach()
        ctx.count("mon.concurrent_history")
        for t in sc.threads:
            if t.exc is not None:
                errors.append((t.tid, None, t.exc))
        if errors:
            tid, op, e = errors[0]
            ctx.violation(f"cache-op-raised-under-concurrency:{kind}:" + core.exc_sig(e), f"thread {tid} op {op}: {e!r}", case)
            return
        for call, ret, op, res in history:
            if op[0] == "get" and res is not None and answers[res].expiration <= clock.now:
                ctx.violation(f"stale-answer-returned:{kind}:concurrent", f"uid {res}", case)
                return
        ok = linearizable(history, model, clock.now)
        ctx.count("mon.linearizable")
        if ok is None:
            ctx.count("obs.linearizability_search_budget_exceeded")
        elif not ok:
            ctx.violation(f"history-not-linearizable:{kind}", f"history {[(c, r, o[0], res) for c, r, o, res in history]}", case)
            return
        if kind == "lru":
            ring_witness(ctx, cache, case, "concurrent")
        ctx.seen(("conc", kind, sc.trace_key()))
    finally:
        dns.resolver.threading, dns.resolver.time = saved_t, saved_time


def stress(ctx, rng, nops):
    old = sys.getswitchinterval()
    sys.setswitchinterval(1e-6)
    try:
        for kind in ("lru", "cache"):
            cache = dns.resolver.LRUCache(4) if kind == "lru" else dns.resolver.Cache(0.001)
            nthreads = 12
            per = nops // nthreads // 2
            counts = [[0, 0] for _ in range(nthreads)]
            errs = []

            def worker(i):
                r = random.Random(i)
                import time as _t
                try:
                    for j in range(per):
                        k = KEYS[r.randrange(6)]
                        x = r.random()
                        if x < 0.5:
                            v = cache.get(k)
                            counts[i][0 if v is not None else 1] += 1
                            if v is not None and v.expiration <= _t.time() - 5:
                                errs.append("stale")
                        elif x < 0.9:
                            cache.put(k, Ans(j, _t.time() + r.choice((-1, 0.001, 60))))
                        elif x < 0.97:
                            cache.flush(k)
                        else:
                            cache.flush()
                except Exception as e:
                    errs.append(repr(e))

            ts = [threading.Thread(target=worker, args=(i,)) for i in range(nthreads)]
            for t in ts:
                t.start()
            for t in ts:
                t.join(timeout=120)
            if any(t.is_alive() for t in ts):
                ctx.mark_inconclusive("uncontrolled cache stress did not finish in 120 s")
                return
            ctx.count("mon.uncontrolled_ops", per * nthreads)
            ctx.count("evaluations", per * nthreads)
            if errs:
                ctx.violation(f"cache-op-raised-under-concurrency:{kind}:uncontrolled", str(errs[:3]), None)
            s = cache.get_statistics_snapshot()
            if s.hits != sum(c[0] for c in counts) or s.misses != sum(c[1] for c in counts):
                ctx.violation(f"statistics-lost-updates:{kind}:uncontrolled", f"{s.hits}/{s.misses} vs {sum(c[0] for c in counts)}/{sum(c[1] for c in counts)}", None)
            if kind == "lru":
                ring_witness(ctx, cache, None, "uncontrolled")
                if len(cache.data) > cache.max_size:
                    ctx.violation("lru-holds-more-than-limit:uncontrolled", "", None)
    finally:
        sys.setswitchinterval(old)


class _SlowLock:
    """stands in for the cache's lock: acquiring it takes virtual time (as when another thread is inside the cache)"""

    def __init__(self, real, clock, delay):
        self.real, self.clock, self.delay = real, clock, delay
        self.acquired_at = []

    def __enter__(self):
        self.clock.now += self.delay
        self.acquired_at.append(self.clock.now)
        return self.real.__enter__()

    def __exit__(self, *a):
        return self.real.__exit__(*a)

    def acquire(self, *a, **k):
        self.clock.now += self.delay
        self.acquired_at.append(self.clock.now)
        return self.real.acquire(*a, **k)

    def release(self):
        return self.real.release()


def waited_for_lock_drill(ctx, rng, kind):
    """a lookup that had to wait for the cache's lock while its entry ran out: freshness is judged where the operation takes
    effect -- inside its critical section -- not when the call was made"""
    ctx.count("evaluations")
    ctx.count("mon.lookup_that_waited_for_the_lock")
    clock = Clock(rng.choice((1000.0, 1.7e9)))
    with swap_attr(dns.resolver, "time", clock):
        cache = dns.resolver.Cache(cleaning_interval=1e6) if kind == "cache" else dns.resolver.LRUCache(8)
        k = KEYS[0]
        life = rng.choice((1.0, 5.0, 30.0))
        a = Ans(1, clock.now + life)
        cache.put(k, a)
        wait = rng.choice((0.0, life / 2, life, life * 2, life + 100))
        slow = _SlowLock(cache.lock, clock, wait)
        cache.lock = slow
        try:
            got = cache.get(k)
        finally:
            cache.lock = slow.real
        case = {"kind": "waited-for-lock", "cache": kind, "life": life, "wait": wait}
        inside = slow.acquired_at[0] if slow.acquired_at else clock.now
        ctx.seen(("waited", kind, wait >= life, got is not None))
        if got is not None and a.expiration <= inside:
            ctx.violation(f"stale-answer-returned:{kind}:lookup-waited-for-the-lock", f"entry expires at +{life}, the lookup got the lock at +{wait}, and returned the entry", case)
        elif got is None and a.expiration > clock.now:
            ctx.violation(f"fresh-answer-not-returned:{kind}:lookup-waited-for-the-lock", f"entry expires at +{life}, lock acquired at +{wait}", case)


def run(spec, ctx):
    rng = ctx.rng
    for i in range(40):
        waited_for_lock_drill(ctx, rng, rng.choice(("lru", "cache")))
    for i in range(spec["n_seq"]):
        if ctx.expired(0.4):
            break
        sequential_history(ctx, rng, rng.choice(("lru", "lru", "cache")))
    inj = S.LineInjector().watch(dns.resolver.CacheBase, dns.resolver.Cache, dns.resolver.LRUCache, dns.resolver.LRUCacheNode, dns.resolver.CacheStatistics)
    inj.install()
    try:
        for i in range(spec["n_conc"]):
            if ctx.expired(0.9):
                break
            concurrent_history(ctx, rng, rng.choice(("lru", "lru", "cache")), inj)
        ctx.count("mon.line_events", inj.count)
    finally:
        inj.uninstall()
    if spec["stress"]:
        stress(ctx, rng, spec["stress_ops"])
    if ctx.shard == 0:
        ctx.sample({"keys": [str(k[0]) for k in KEYS[:3]], "ops": ["get", "put", "flush", "set_max_size", "reset_statistics", "get_hits_for_key", "hits", "misses", "snapshot", "advance"]})


def replay(case, ctx):
    ctx.notes.append("cache histories are regenerated from the seed")
