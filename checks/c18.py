"""C18 — a network exchange returns only a genuine response; stream framing is exact."""

import asyncio
import socket
import struct

import dns.asyncbackend
import dns.asyncquery
import dns.exception
import dns.flags
import dns.message
import dns.name
import dns.query
import dns.rcode
import dns.rdatatype

from vlib import core
from vlib.mon.hooks import swap_attr
from vlib.ref import names as RN
from vlib.ref import wirewalk as WW

PROP = "C18"
LEVEL = "fault_enumeration"
RULE = (
    "scripted socket objects are passed through the public sock= parameters of dns.query.udp/receive_udp/tcp/receive_tcp/send_tcp and "
    "their dns.asyncquery twins; dns.query._wait_for and the clocks are scripted. UDP: sequences of datagrams (forged source address, "
    "forged port, wrong id, wrong question, wrong opcode, QR clear, garbage, spoofed TC garbage, genuine with TC, genuine with trailing "
    "bytes, genuine with malformed tail, FORMERR/SERVFAIL without question, genuine) before or instead of the real reply under every "
    "combination of ignore_unexpected, ignore_errors, raise_on_truncation, ignore_trailing, with would-block events and expiry; the "
    "outcome is compared with a reference decision and every returned message is re-judged on its raw bytes by an independent "
    "'is this a response to that query' predicate. TCP: length-prefixed responses delivered under every split into <= 12 chunks for "
    "short messages (random otherwise), would-block events, EOF at every byte position, expiry at every wait, short send() returns. "
    "Distinct by (transport, sync/async, option combination, datagram category sequence prefix, outcome)."
)
RULE += " " + (
    "Also: udp_with_fallback with independently varied options on both legs; replies in another question class or repeating the question; a stream of skipped datagrams each taking virtual time (at most one read after the deadline); would-block sends under the one deadline; the real asyncio backend on loopback with no time left. send_tcp given Message objects (plain, padded, signed)."
)
ASSUMPTIONS = [
    "reference decision for datagram sequences and the independent acceptability predicate (wire walker) in this file",
    "virtual clock: dns.query.time / dns.asyncquery.time; readiness is scripted through dns.query._wait_for and the socket stand-ins",
]
REQUIRED = ["mon.send_tcp_message_object", "mon.udp_flood_deadline", "mon.udp_with_fallback", "mon.tcp_deadline", "mon.udp_sync", "mon.udp_async", "mon.returned_is_acceptable", "mon.tcp_reassembly", "mon.tcp_eof_positions", "mon.tcp_write_framing", "mon.tcp_async"]
BUDGET = {"quick": 45.0, "thorough": 480.0}

DEST = ("192.0.2.53", 53)
WHERE = DEST[0]
FAMILY = socket.AF_INET
# (text given to the query function, address tuple the socket layer reports for that peer, family, another host, same address in another scope)
DESTS = [
    ("192.0.2.53", ("192.0.2.53", 53), socket.AF_INET, ("198.51.100.7", 53), None, None),
    ("2001:db8::53", ("2001:db8::53", 53, 0, 0), socket.AF_INET6, ("2001:db8::54", 53, 0, 0), None, None),
    ("fe80::1%2", ("fe80::1", 53, 0, 2), socket.AF_INET6, ("fe80::2", 53, 0, 2), ("fe80::1", 53, 0, 3), None),
    # multicast destinations (mDNS): the answer comes from some unicast host, so any source ADDRESS is right, the port is not free
    ("224.0.0.251", ("224.0.0.251", 5353), socket.AF_INET, ("198.51.100.7", 5353), None, ("192.0.2.77", 5353)),
    ("ff02::fb", ("ff02::fb", 5353, 0, 0), socket.AF_INET6, ("2001:db8::54", 5353, 0, 0), None, ("2001:db8::77", 5353, 0, 0)),
]
OTHER_HOST = ("198.51.100.7", 53)
OTHER_SCOPE = None
REPLY_FROM = DEST
MULTICAST = False


def choose_destination(rng):
    """rebinds the module-level peer description used by the datagram builders and the scripted sockets"""
    global DEST, WHERE, FAMILY, OTHER_HOST, OTHER_SCOPE, REPLY_FROM, MULTICAST
    WHERE, DEST, FAMILY, OTHER_HOST, OTHER_SCOPE, responder = rng.choice((DESTS[0], DESTS[0], DESTS[1], DESTS[2], DESTS[2], DESTS[3], DESTS[4]))
    MULTICAST = responder is not None
    REPLY_FROM = responder if MULTICAST else DEST


CATS = ["forged_addr", "forged_port", "forged_scope", "genuine_tc_short", "wrong_question_class", "wrong_id", "wrong_question", "extra_question", "repeated_question", "empty_question_noerror", "empty_question_other_rcode", "wrong_opcode", "qr_clear", "garbage", "garbage_tc", "genuine_tc", "genuine_trailing", "genuine_malformed_tail",
        "servfail_noq", "genuine", "genuine", "block"]


class Clock:
    def __init__(self):
        self.now = 5000.0

    def time(self):
        return self.now


def shards(tier, seed):
    mult = 1 if tier == "quick" else 24
    return [{"n_udp": 3000 * mult, "n_tcp": 600 * mult, "part": i, "parts": 16} for i in range(16)]


# ------------------------------------------------------------------------------------------ datagrams


def make_query(rng):
    name = dns.name.from_text(rng.choice(("www.example.", "Example.COM.", "a.b.c.test.")))
    q = dns.message.make_query(name, rng.choice(("A", "AAAA", "MX")), id=rng.randrange(65536))
    return q


_uniq = [0]


def response_wire(q, rng, answers=True, rcode=0, tc=False):
    r = dns.message.make_response(q)
    _uniq[0] += 1
    u = _uniq[0]
    if answers:
        rr = r.find_rrset(r.answer, q.question[0].name, 1, dns.rdatatype.A, create=True)
        rr.add(dns.rdata.from_text("IN", "A", f"10.{(u >> 16) & 255}.{(u >> 8) & 255}.{u & 255}"), 60)
        rr.add(dns.rdata.from_text("IN", "A", "10.255.0.2"), 60)
    else:
        # keep datagrams distinguishable: a unique additional record
        rr = r.find_rrset(r.additional, dns.name.from_text(f"u{u}.invalid."), 1, dns.rdatatype.A, create=True)
        rr.add(dns.rdata.from_text("IN", "A", "10.9.9.9"), 1)
    r.set_rcode(rcode)
    if tc:
        r.flags |= dns.flags.TC
    return r.to_wire()


def datagram(cat, q, rng):
    """returns (wire, from_address)"""
    if cat == "genuine":
        return response_wire(q, rng), REPLY_FROM
    if cat == "forged_addr":
        return response_wire(q, rng), OTHER_HOST
    if cat == "forged_port":
        return response_wire(q, rng), (REPLY_FROM[0], REPLY_FROM[1] + 1) + tuple(REPLY_FROM[2:])
    if cat == "forged_scope":
        # the same link-local address on another link is another host (only meaningful for a scoped destination)
        return response_wire(q, rng), (OTHER_SCOPE or OTHER_HOST)
    if cat == "genuine_tc_short":
        # the genuine reply, TC set, cut after the header or inside the question: all a receiver can tell is "truncated"
        w = response_wire(q, rng, answers=False, tc=True)
        qend = 12 + RN.wire_len(WW.walk(w)["questions"][0][0]) + 4
        return w[:rng.choice((12, 13, qend - 5, qend - 1))] + b"", REPLY_FROM
    if cat == "wrong_id":
        w = bytearray(response_wire(q, rng))
        w[0:2] = struct.pack("!H", (q.id + rng.randint(1, 65535)) % 65536)
        return bytes(w), REPLY_FROM
    if cat == "wrong_question_class":
        # same name and type, another class (CH/HS/ANY): a different question
        q2 = dns.message.make_query(q.question[0].name, q.question[0].rdtype, rng.choice((3, 4, 255)), id=q.id)
        r2 = dns.message.make_response(q2)
        _uniq[0] += 1
        rr = r2.find_rrset(r2.additional, dns.name.from_text(f"u{_uniq[0]}.invalid."), 1, dns.rdatatype.A, create=True)
        rr.add(dns.rdata.from_text("IN", "A", "10.9.9.9"), 1)
        return r2.to_wire(), REPLY_FROM
    if cat == "wrong_question":
        q2 = dns.message.make_query("other.example.", "A", id=q.id)
        return response_wire(q2, rng), REPLY_FROM
    if cat == "extra_question":
        w = bytearray(response_wire(q, rng, answers=False))
        # append a second question right after the first one and bump QDCOUNT (records after it keep their place)
        walk = WW.walk(bytes(w))
        qend = 12 + RN.wire_len(walk["questions"][0][0]) + 4
        extra = b"\x05extra\x07invalid\x00" + struct.pack("!HH", 1, 1)
        w[4:6] = struct.pack("!H", 2)
        return bytes(w[:qend]) + extra + bytes(w[qend:]), REPLY_FROM
    if cat == "repeated_question":
        # the query's own question twice over (QDCOUNT 2): not the question section that was sent
        w = bytearray(response_wire(q, rng, answers=False))
        walk = WW.walk(bytes(w))
        qend = 12 + RN.wire_len(walk["questions"][0][0]) + 4
        w[4:6] = struct.pack("!H", 2)
        return bytes(w[:qend]) + bytes(w[12:qend]) + bytes(w[qend:]), REPLY_FROM
    if cat == "empty_question_noerror":
        return struct.pack("!HHHHHH", q.id, 0x8000, 0, 0, 0, 0), REPLY_FROM
    if cat == "empty_question_other_rcode":
        # header only, an rcode other than the four for which a server may legitimately be unable to echo the question
        return struct.pack("!HHHHHH", q.id, 0x8000 | rng.choice((3, 6, 7, 8, 9, 10)), 0, 0, 0, 0), REPLY_FROM
    if cat == "wrong_opcode":
        w = bytearray(response_wire(q, rng))
        w[2] = (w[2] & 0x87) | (4 << 3)
        return bytes(w), REPLY_FROM
    if cat == "qr_clear":
        w = bytearray(response_wire(q, rng))
        w[2] &= 0x7F
        return bytes(w), REPLY_FROM
    if cat == "garbage":
        g = bytearray(rng.randrange(256) for _ in range(rng.choice((0, 3, 11, 12, 30))))
        if len(g) >= 3:
            g[2] &= ~0x02 & 0xFF  # TC clear, so that it cannot be taken for a truncated reply
        return bytes(g), REPLY_FROM
    if cat == "garbage_tc":
        # a spoofed, truncated-looking datagram: other id, TC set, counts promising records that are not there
        return struct.pack("!HHHHHH", (q.id + 1) % 65536, 0x8200, 1, 3, 0, 0) + b"\x03bad\x00\x00\x01\x00\x01" + b"\xff\xff", REPLY_FROM
    if cat == "genuine_tc":
        return response_wire(q, rng, answers=False, tc=True), REPLY_FROM
    if cat == "genuine_trailing":
        return response_wire(q, rng) + b"\x00trailing", REPLY_FROM
    if cat == "genuine_malformed_tail":
        w = response_wire(q, rng)
        return w[:-3], REPLY_FROM  # header and question intact, last record cut short
    if cat == "servfail_noq":
        return struct.pack("!HHHHHH", q.id, 0x8002, 0, 0, 0, 0), REPLY_FROM
    raise ValueError(cat)


def acceptable(qwire, dwire):
    """independent predicate on raw bytes: is dwire a response to qwire?"""
    try:
        q = WW.walk(qwire)
        d = WW.walk(dwire)
    except WW.WalkError:
        return False
    if not (d["flags"] & 0x8000):
        return False
    if d["id"] != q["id"]:
        return False
    if (d["flags"] >> 11) & 0xF != (q["flags"] >> 11) & 0xF:
        return False
    rcode = d["flags"] & 0xF
    if rcode in (1, 2, 4, 5) and not d["questions"]:
        return True
    qa = sorted((tuple(RN.fold(l) for l in n), t, c) for n, t, c in q["questions"])
    da = sorted((tuple(RN.fold(l) for l in n), t, c) for n, t, c in d["questions"])
    return qa == da


def reference_udp(cats, opts):
    """returns ('return', index) | ('raise', exception name) | ('timeout',)"""
    for i, cat in enumerate(cats):
        if cat == "block":
            continue
        if cat == "expire":
            return ("timeout",)
        if cat in ("forged_addr", "forged_port", "forged_scope") and not (MULTICAST and cat != "forged_port"):
            if opts["ignore_unexpected"]:
                continue
            return ("raise", "UnexpectedSource")
        # parse outcome
        err = None
        is_resp = cat in ("genuine", "genuine_tc", "genuine_trailing", "genuine_malformed_tail", "servfail_noq") or (MULTICAST and cat in ("forged_addr", "forged_scope"))
        if cat == "garbage":
            err = "FormError"
        elif cat in ("garbage_tc", "genuine_tc_short"):
            # (a cut inside the question leaves nothing to match the query with: reported as truncation when asked and errors
            # are not ignored, skipped when they are)
            err = "Truncated" if opts["raise_on_truncation"] else "FormError"
        elif cat == "genuine_trailing" and not opts["ignore_trailing"]:
            err = "FormError"
        elif cat == "genuine_malformed_tail":
            err = "FormError"
        elif cat == "genuine_tc" and opts["raise_on_truncation"]:
            err = "Truncated"
        if err is not None:
            if opts["ignore_errors"]:
                if err == "Truncated" and is_resp:
                    return ("raise", "Truncated")
                continue
            return ("raise", err)
        if not is_resp:
            if opts["ignore_errors"]:
                continue
            return ("raise", "BadResponse")
        return ("return", i)
    return ("timeout",)


# ------------------------------------------------------------------------------------------ scripted sockets


class FakeUDPSocket:
    family = socket.AF_INET
    type = socket.SOCK_DGRAM

    def __init__(self, events):
        self.family = FAMILY
        self.events = list(events)  # ('dgram', wire, from) | ('block',) | ('expire',)
        self.sent = []
        self.waits = 0
        self.clock = None  # with a clock: every delivered datagram takes self.tick seconds of virtual time
        self.tick = 0.0
        self.deadline = None
        self.reads_after_deadline = 0

    def sendto(self, data, dest):
        self.sent.append((bytes(data), dest))
        return len(data)

    def send(self, data):
        self.sent.append((bytes(data), None))
        return len(data)

    def recvfrom(self, n):
        if not self.events:
            raise BlockingIOError
        ev = self.events[0]
        if ev[0] == "dgram":
            self.events.pop(0)
            if self.clock is not None:
                if self.deadline is not None and self.clock.now >= self.deadline:
                    self.reads_after_deadline += 1
                self.clock.now += self.tick
            return ev[1][:n], ev[2]
        raise BlockingIOError

    def wait(self):
        """scripted readiness: consumes a block event (ready again) or signals expiry"""
        self.waits += 1
        if not self.events or self.events[0][0] == "expire":
            raise dns.exception.Timeout
        if self.events[0][0] == "block":
            self.events.pop(0)

    def close(self):
        pass

    def __enter__(self):
        return self

    def __exit__(self, *a):
        return False


class FakeStream:
    family = socket.AF_INET
    type = socket.SOCK_STREAM

    def __init__(self, data, chunks, blocks, eof_at=None, expire_at_wait=None, send_plan=None):
        self.data = data
        self.pos = 0
        self.chunks = list(chunks)
        self.blocks = set(blocks)  # recv call indexes that raise BlockingIOError first
        self.eof_at = eof_at
        self.expire_at_wait = expire_at_wait
        self.recv_calls = 0
        self.waits = 0
        self.written = bytearray()
        self.send_plan = list(send_plan or [])
        self.send_calls = 0
        self.blocked_once = set()

    def recv(self, n):
        i = self.recv_calls
        if i in self.blocks and i not in self.blocked_once:
            self.blocked_once.add(i)
            raise BlockingIOError
        self.recv_calls += 1
        limit = len(self.data) if self.eof_at is None else min(self.eof_at, len(self.data))
        if self.pos >= limit:
            if self.eof_at is not None or self.pos >= len(self.data):
                return b""
        k = self.chunks.pop(0) if self.chunks else n
        k = max(1, min(k, n, limit - self.pos))
        out = self.data[self.pos:self.pos + k]
        self.pos += k
        return out

    def send(self, data):
        self.send_calls += 1
        if self.send_plan:
            k = self.send_plan.pop(0)
            if k == 0:
                raise BlockingIOError
            k = min(k, len(data))
        else:
            k = len(data)
        self.written += data[:k]
        return k

    def wait(self):
        self.waits += 1
        if self.expire_at_wait is not None and self.waits > self.expire_at_wait:
            raise dns.exception.Timeout

    def getpeername(self):
        return DEST

    def close(self):
        pass

    def __enter__(self):
        return self

    def __exit__(self, *a):
        return False


class AsyncUDP(dns.asyncbackend.DatagramSocket):
    def __init__(self, fake):
        super().__init__(fake.family, socket.SOCK_DGRAM)
        self.fake = fake

    async def sendto(self, what, destination, timeout):
        return self.fake.sendto(what, destination)

    async def recvfrom(self, size, timeout):
        if self.fake.clock is not None and timeout is not None and timeout <= 0:
            raise dns.exception.Timeout  # what a backend does with no time left
        while True:
            try:
                return self.fake.recvfrom(size)
            except BlockingIOError:
                self.fake.wait()

    async def close(self):
        pass

    async def getpeername(self):
        return DEST


class AsyncStream(dns.asyncbackend.StreamSocket):
    def __init__(self, fake):
        super().__init__(socket.AF_INET, socket.SOCK_STREAM)
        self.fake = fake

    async def sendall(self, what, timeout):
        data = bytes(what)
        cur = 0
        while cur < len(data):
            try:
                cur += self.fake.send(data[cur:])
            except BlockingIOError:
                self.fake.wait()

    async def recv(self, size, timeout):
        while True:
            try:
                return self.fake.recv(size)
            except BlockingIOError:
                self.fake.wait()

    async def close(self):
        pass

    async def getpeername(self):
        return DEST


def scripted_wait_for(fd, readable, writable, _, expiration):
    fd.wait()


def run_async(coro):
    loop = asyncio.new_event_loop()
    try:
        return loop.run_until_complete(coro)
    finally:
        loop.close()


# ------------------------------------------------------------------------------------------ UDP


def check_udp(ctx, rng, is_async, cats=None, opts=None):
    ctx.count("evaluations")
    choose_destination(rng)
    q = make_query(rng)
    qwire = q.to_wire()
    if cats is None:
        cats = [rng.choice(CATS) for _ in range(rng.randint(0, 7))]
        if rng.random() < 0.1:
            cats.insert(rng.randrange(len(cats) + 1), "expire")
    if opts is None:
        opts = {k: rng.random() < 0.5 for k in ("ignore_unexpected", "ignore_errors", "raise_on_truncation", "ignore_trailing")}
        opts["one_rr_per_rrset"] = rng.random() < 0.3
    events = []
    wires = []
    for c in cats:
        if c in ("block", "expire"):
            events.append((c,))
            wires.append(None)
        else:
            w, frm = datagram(c, q, rng)
            events.append(("dgram", w, frm))
            wires.append(w)
    fake = FakeUDPSocket(events)
    clock = Clock()
    want = reference_udp(cats, opts)
    mode = "async" if is_async else "sync"
    case = {"kind": "udp", "mode": mode, "cats": cats, "opts": opts, "query": qwire, "where": WHERE}
    ctx.count("mon.udp_async" if is_async else "mon.udp_sync")
    got = None
    try:
        with swap_attr(dns.query, "time", clock), swap_attr(dns.query, "_wait_for", scripted_wait_for), swap_attr(dns.asyncquery, "time", clock):
            if is_async:
                r = run_async(dns.asyncquery.udp(q, WHERE, timeout=5, port=DEST[1], sock=AsyncUDP(fake), **opts))
            else:
                r = dns.query.udp(q, WHERE, timeout=5, port=DEST[1], sock=fake, **opts)
        got = ("return", r)
    except dns.exception.Timeout:
        got = ("timeout",)
    except dns.query.UnexpectedSource:
        got = ("raise", "UnexpectedSource")
    except dns.query.BadResponse:
        got = ("raise", "BadResponse")
    except dns.message.Truncated:
        got = ("raise", "Truncated")
    except dns.exception.FormError:
        got = ("raise", "FormError")
    except Exception as e:
        ctx.violation(f"udp-exchange-raised-foreign:{mode}:" + core.exc_sig(e), repr(e), case)
        return
    ctx.seen(("udp", mode, WHERE, tuple(sorted(k for k, v in opts.items() if v)), tuple(cats[:3]), got[0], want[0]))
    if got[0] == "return":
        r = got[1]
        rw = getattr(r, "wire", None)
        ctx.count("mon.returned_is_acceptable")
        if rw is None or not acceptable(qwire, rw):
            idx = wires.index(rw) if rw in wires else None
            cat = cats[idx] if idx is not None else "?"
            ctx.violation(f"returned-message-is-not-a-response-to-the-query:{mode}:{cat}", f"cats {cats} opts {opts}", case)
            return
        idx = next((i for i, w in enumerate(wires) if w == rw), None)
        if idx is None:
            ctx.violation(f"returned-message-not-among-received-datagrams:{mode}", "", case)
            return
        frm = events[idx][2]
        if (frm != DEST) if not MULTICAST else (frm[1:] != DEST[1:]):
            ctx.violation(f"returned-message-from-unexpected-source:{mode}:{cats[idx]}{':multicast' if MULTICAST else ''}", f"{frm}", case)
            return
        if cats[idx] in ("garbage", "garbage_tc", "genuine_tc_short", "genuine_malformed_tail", "wrong_id", "wrong_question", "wrong_question_class", "extra_question", "repeated_question", "empty_question_noerror", "empty_question_other_rcode", "wrong_opcode", "qr_clear") or (cats[idx] == "genuine_trailing" and not opts["ignore_trailing"]):
            ctx.violation(f"malformed-or-mismatched-datagram-returned:{mode}:{cats[idx]}:{'ignore_errors' if opts['ignore_errors'] else 'strict'}", f"cats {cats} opts {opts}; message errors {getattr(r, 'errors', None)}", case)
            return
        if cats[idx] == "genuine_tc" and opts["raise_on_truncation"]:
            ctx.violation(f"truncated-reply-returned-although-raise_on_truncation:{mode}", "", case)
            return
        if want != ("return", idx):
            ctx.violation(f"udp-outcome-differs-from-reference:{mode}:returned-{cats[idx]}-expected-{want[0]}", f"cats {cats} opts {opts} want {want}", case)
        return
    if got != want:
        w = want if want[0] != "return" else ("return", cats[want[1]])
        ctx.violation(f"udp-outcome-differs-from-reference:{mode}:{got}-expected-{w}", f"cats {cats} opts {opts}", case)
    # the query that went out is exactly the rendered query, to the queried address
    if not fake.sent or fake.sent[0][0] != qwire or (fake.sent[0][1] is not None and tuple(fake.sent[0][1][:2]) != tuple(DEST[:2])):
        ctx.violation(f"udp-query-not-sent-as-rendered:{mode}", f"{fake.sent[:1]}", case)


# ------------------------------------------------------------------------------------------ TCP


def splits(n, max_parts, rng, exhaustive_limit=12):
    """chunk length lists covering n bytes"""
    out = [[n], [1] * n if n <= 64 else [1] * 64]
    if n <= exhaustive_limit:
        # every composition of n (2^(n-1))
        for mask in range(1 << (n - 1)):
            parts, cur = [], 1
            for i in range(n - 1):
                if mask & (1 << i):
                    parts.append(cur)
                    cur = 1
                else:
                    cur += 1
            parts.append(cur)
            out.append(parts)
    else:
        for _ in range(12):
            parts, left = [], n
            while left > 0:
                k = rng.choice((1, 1, 2, 3, 7, 100, left))
                k = min(k, left)
                parts.append(k)
                left -= k
            out.append(parts)
    return out


def check_tcp(ctx, rng, is_async):
    ctx.count("evaluations")
    q = make_query(rng)
    qwire = q.to_wire()
    kind = rng.choice(("genuine", "genuine", "genuine_small", "not_response", "two_messages"))
    if kind == "genuine_small":
        rw = struct.pack("!HHHHHH", q.id, 0x8002, 0, 0, 0, 0)  # SERVFAIL without question: 12 bytes -> exhaustive splits
    elif kind == "not_response":
        q2 = dns.message.make_query("other.example.", "A", id=q.id)
        rw = response_wire(q2, rng)
    else:
        rw = response_wire(q, rng)
    stream = struct.pack("!H", len(rw)) + rw
    if kind == "two_messages":
        stream += struct.pack("!H", len(rw)) + rw
    mode = "async" if is_async else "sync"
    clock = Clock()
    all_splits = splits(len(stream), 12, rng) if len(stream) <= 14 else splits(len(stream), 12, rng)
    rng.shuffle(all_splits)
    for parts in all_splits[:40 if len(stream) > 14 else 5000]:
        ctx.count("mon.tcp_reassembly")
        if is_async:
            ctx.count("mon.tcp_async")
        blocks = {i for i in range(len(parts) + 2) if rng.random() < 0.2}
        send_plan = [rng.choice((0, 1, 2, 5, 1000)) for _ in range(rng.randint(0, 6))]
        fake = FakeStream(stream, parts, blocks, send_plan=send_plan)
        case = {"kind": "tcp", "mode": mode, "chunks": parts[:40], "blocks": sorted(blocks), "send_plan": send_plan, "response_kind": kind}
        try:
            with swap_attr(dns.query, "time", clock), swap_attr(dns.query, "_wait_for", scripted_wait_for), swap_attr(dns.asyncquery, "time", clock):
                if is_async:
                    r = run_async(dns.asyncquery.tcp(q, DEST[0], timeout=5, sock=AsyncStream(fake)))
                else:
                    r = dns.query.tcp(q, DEST[0], timeout=5, sock=fake)
            got = ("return", r)
        except dns.query.BadResponse:
            got = ("raise", "BadResponse")
        except Exception as e:
            ctx.violation(f"tcp-exchange-raised:{mode}:" + core.exc_sig(e), f"{e!r}", case)
            return
        ctx.seen(("tcp", mode, kind, got[0], min(len(parts), 6)))
        if kind == "not_response":
            if got[0] == "return":
                ctx.violation(f"tcp-returned-message-that-is-not-a-response:{mode}", "", case)
                return
        else:
            if got[0] != "return":
                ctx.violation(f"tcp-genuine-response-rejected:{mode}:{got}", "", case)
                return
            if getattr(got[1], "wire", None) != rw:
                ctx.violation(f"tcp-reassembled-message-differs-from-sent-bytes:{mode}", f"chunks {parts[:20]}", case)
                return
        # bytes handed to the peer are exactly length prefix + query, whatever the partial-write pattern
        ctx.count("mon.tcp_write_framing")
        if bytes(fake.written) != struct.pack("!H", len(qwire)) + qwire:
            ctx.violation(f"tcp-bytes-written-differ-from-prefix-plus-message:{mode}", f"send_plan {send_plan}: wrote {len(fake.written)} of {len(qwire) + 2}", case)
            return
    # EOF at every byte position; expiry at every wait
    single = struct.pack("!H", len(rw)) + rw
    positions = range(len(single)) if len(single) <= 64 else sorted(set(list(range(0, 6)) + [rng.randrange(len(single)) for _ in range(20)] + [len(single) - 1]))
    for eof in positions:
        ctx.count("mon.tcp_eof_positions")
        parts = rng.choice(all_splits)
        fake = FakeStream(single, list(parts), set(), eof_at=eof)
        case = {"kind": "tcp-eof", "mode": mode, "eof_at": eof, "len": len(single)}
        try:
            with swap_attr(dns.query, "time", clock), swap_attr(dns.query, "_wait_for", scripted_wait_for), swap_attr(dns.asyncquery, "time", clock):
                if is_async:
                    r = run_async(dns.asyncquery.tcp(q, DEST[0], timeout=5, sock=AsyncStream(fake)))
                else:
                    r = dns.query.tcp(q, DEST[0], timeout=5, sock=fake)
            ctx.violation(f"tcp-short-stream-returned-a-message:{mode}", f"EOF after {eof} of {len(single)} bytes", case)
            return
        except EOFError:
            pass
        except Exception as e:
            ctx.violation(f"tcp-early-eof-wrong-exception:{mode}:{type(e).__name__}", f"EOF after {eof} of {len(single)}: {e!r}", case)
            return
    for w in range(0, 4):
        parts = [1] * min(len(single), 64)
        fake = FakeStream(single, list(parts), set(range(0, 200)), expire_at_wait=w)
        case = {"kind": "tcp-expiry", "mode": mode, "expire_at_wait": w}
        try:
            with swap_attr(dns.query, "time", clock), swap_attr(dns.query, "_wait_for", scripted_wait_for), swap_attr(dns.asyncquery, "time", clock):
                if is_async:
                    r = run_async(dns.asyncquery.tcp(q, DEST[0], timeout=5, sock=AsyncStream(fake)))
                else:
                    r = dns.query.tcp(q, DEST[0], timeout=5, sock=fake)
            ctx.violation(f"tcp-expired-deadline-returned-a-message:{mode}", f"expiry at wait {w}", case)
            return
        except dns.exception.Timeout:
            pass
        except Exception as e:
            ctx.violation(f"tcp-expiry-wrong-exception:{mode}:{type(e).__name__}", repr(e), case)
            return


def check_tcp_deadline(ctx, rng, is_async):
    """a reply that trickles in: every fragment arrives after a scripted delay on a virtual clock.  The exchange has one
    absolute deadline; no single read may be allowed to run past it, and a reply that completes after it is an error"""
    ctx.count("evaluations")
    ctx.count("mon.tcp_deadline")
    q = make_query(rng)
    rw = response_wire(q, rng)
    single = struct.pack("!H", len(rw)) + rw
    n = rng.randint(2, 10)
    cuts = sorted(rng.sample(range(1, len(single)), n - 1))
    parts = [b - a for a, b in zip([0] + cuts, cuts + [len(single)])]
    delays = [rng.choice((0.0, 0.0, 0.13, 0.61, 1.57, 3.1)) for _ in parts]
    clock = Clock()
    deadline = clock.now + 5
    mode = "async" if is_async else "sync"
    case = {"kind": "tcp-deadline", "mode": mode, "parts": parts, "delays": delays}
    allowed = []  # (now, latest moment the read was allowed to run to)
    # every recv would-block first, so a wait precedes it; the query may also leave in pieces with would-blocks in between
    fake = FakeStream(single, list(parts), set(range(len(parts) + 4)), send_plan=rng.choice(([], [0, 1000], [3, 0, 0, 1000], [0, 1, 0, 1000])))
    pending = list(delays)

    def timed_wait_for(fd, readable, writable, _, expiration):
        d = pending.pop(0) if (readable and pending) else 0.0
        allowed.append((clock.now, expiration))
        if expiration is not None and clock.now + d > expiration:
            clock.now = max(clock.now, expiration)
            raise dns.exception.Timeout
        clock.now += d

    class TimedAsyncStream(AsyncStream):
        async def recv(self, size, timeout):
            d = pending.pop(0) if pending else 0.0
            allowed.append((clock.now, None if timeout is None else clock.now + timeout))
            if timeout is not None and d > timeout:
                clock.now += timeout
                raise dns.exception.Timeout
            clock.now += d
            fake.blocked_once.add(fake.recv_calls)
            return fake.recv(size)

    try:
        with swap_attr(dns.query, "time", clock), swap_attr(dns.query, "_wait_for", timed_wait_for), swap_attr(dns.asyncquery, "time", clock):
            if is_async:
                r = run_async(dns.asyncquery.tcp(q, DEST[0], timeout=5, sock=TimedAsyncStream(fake)))
            else:
                r = dns.query.tcp(q, DEST[0], timeout=5, sock=fake)
        got = "return"
    except dns.exception.Timeout:
        got = "timeout"
    except Exception as e:
        ctx.violation(f"tcp-deadline-case-raised:{mode}:" + core.exc_sig(e), repr(e), case)
        return
    total = 0.0
    want = "return"
    for d in delays:
        total += d
        if total > 5:
            want = "timeout"
            break
    ctx.seen(("tcp-deadline", mode, got, want, len(parts)))
    late = [(now, until) for now, until in allowed if until is None or until > deadline + 1e-6]
    if late:
        ctx.violation(f"stream-read-allowed-to-run-past-the-deadline:{mode}", f"deadline {deadline}: reads allowed until {[u for _, u in late][:4]}", case)
        return
    if got != want:
        ctx.violation(f"tcp-deadline-outcome:{mode}:{got}-expected-{want}", f"delays {delays} (sum {sum(delays):.2f}) clock at end {clock.now - (deadline - 5):.2f}", case)


def check_flood(ctx, rng, is_async):
    """datagrams that are skipped (forged source, wrong id, garbage) keep arriving, each taking some time: the exchange ends in
    Timeout about when its deadline passes -- it does not go on reading for as long as the flood lasts"""
    ctx.count("evaluations")
    ctx.count("mon.udp_flood_deadline")
    choose_destination(rng)
    q = make_query(rng)
    timeout = rng.choice((0.5, 1.0, 3.0))
    tick = rng.choice((0.05, 0.2, 0.7))
    n = int(timeout / tick) + rng.choice((5, 40, 200))
    cats = [rng.choice(("forged_addr", "wrong_id", "garbage", "wrong_question")) for _ in range(n)]
    events = []
    for c in cats:
        w, frm = datagram(c, q, rng)
        events.append(("dgram", w, frm))
    genuine_after = rng.random() < 0.5
    if genuine_after:
        w, frm = datagram("genuine", q, rng)
        events.append(("dgram", w, frm))
    fake = FakeUDPSocket(events)
    clock = Clock()
    fake.clock, fake.tick, fake.deadline = clock, tick, clock.now + timeout
    mode = "async" if is_async else "sync"
    case = {"kind": "flood", "mode": mode, "timeout": timeout, "tick": tick, "datagrams": n, "genuine_at_the_end": genuine_after, "where": WHERE}
    try:
        with swap_attr(dns.query, "time", clock), swap_attr(dns.query, "_wait_for", scripted_wait_for), swap_attr(dns.asyncquery, "time", clock):
            if is_async:
                run_async(dns.asyncquery.udp(q, WHERE, timeout=timeout, port=DEST[1], ignore_unexpected=True, ignore_errors=True, sock=AsyncUDP(fake)))
            else:
                dns.query.udp(q, WHERE, timeout=timeout, port=DEST[1], ignore_unexpected=True, ignore_errors=True, sock=fake)
        got = "return"
    except dns.exception.Timeout:
        got = "Timeout"
    except Exception as e:
        ctx.violation(f"udp-flood-raised:{mode}:" + core.exc_sig(e), repr(e), case)
        return
    ctx.seen(("flood", mode, got, min(fake.reads_after_deadline, 3)))
    # one datagram may be picked up right as the deadline passes; more than that is reading on after it
    if fake.reads_after_deadline > 1:
        ctx.violation(f"datagrams-read-on-after-the-deadline:{mode}", f"{fake.reads_after_deadline} datagrams read after the deadline (timeout {timeout}, one datagram per {tick} s, {n} skipped ones{' then the genuine reply' if genuine_after else ''}); ended with {got} at +{clock.now - 5000.0:.2f} s", case)


def check_send_tcp_message(ctx, rng, is_async):
    """send_tcp given a Message OBJECT (plain, padded, TSIG-signed): what reaches the stream is one frame -- a two-octet length
    followed by exactly that many octets, which parse as the message (signature included) -- under any partial-write pattern"""
    import dns.tsig

    ctx.count("evaluations")
    ctx.count("mon.send_tcp_message_object")
    q = make_query(rng)
    flavour = rng.choice(("plain", "signed", "signed", "padded", "signed+padded"))
    key = dns.tsig.Key("frame-key.example.", b"0123456789abcdef", rng.choice((dns.tsig.HMAC_SHA256, dns.tsig.HMAC_SHA512)))
    if "padded" in flavour:
        q.use_edns(0, 0, 1232, pad=128)
    if "signed" in flavour:
        q.use_tsig(key)
    send_plan = rng.choice(([], [1, 1, 1000], [0, 3, 0, 1000], [2, 0, 1000]))
    fake = FakeStream(b"", [], set(), send_plan=list(send_plan))
    mode = "async" if is_async else "sync"
    case = {"kind": "send-tcp-message", "mode": mode, "flavour": flavour, "send_plan": send_plan}
    clock = Clock()
    try:
        with swap_attr(dns.query, "time", clock), swap_attr(dns.query, "_wait_for", scripted_wait_for), swap_attr(dns.asyncquery, "time", clock):
            if is_async:
                run_async(dns.asyncquery.send_tcp(AsyncStream(fake), q, clock.now + 5))
            else:
                dns.query.send_tcp(fake, q, clock.now + 5)
    except Exception as e:
        ctx.violation(f"send_tcp-raised:{mode}:" + core.exc_sig(e), repr(e), case)
        return
    out = bytes(fake.written)
    ctx.seen(("send-tcp-message", mode, flavour, bool(send_plan)))
    if len(out) < 2 or struct.unpack("!H", out[:2])[0] != len(out) - 2:
        ctx.violation(f"tcp-frame-length-prefix-differs-from-message-length:{mode}:{flavour}", f"prefix says {struct.unpack('!H', out[:2])[0] if len(out) >= 2 else None}, {len(out) - 2} octets follow", case)
        return
    try:
        back = dns.message.from_wire(out[2:], keyring=key if "signed" in flavour else None)
    except Exception as e:
        ctx.violation(f"tcp-frame-does-not-parse-as-the-message:{mode}:{flavour}:" + core.exc_sig(e), repr(e), case)
        return
    if ("signed" in flavour) != back.had_tsig:
        ctx.violation(f"tcp-frame-lost-the-signature:{mode}:{flavour}", "", case)


def check_real_backend_deadline(ctx, rng):
    """the shipped asyncio backend itself (real datagram sockets on the loopback interface, a peer that never answers): an
    exchange whose time is up -- a tiny timeout, or none left at all (0) -- ends in Timeout; it does not wait on.  The verdict
    is not a wall-clock measurement: only an exchange still waiting after a 15 s guard (300 times its timeout) counts."""
    import dns.asyncbackend

    async def scenario(timeout):
        backend = dns.asyncbackend.get_backend("asyncio")
        peer = socket.socket(socket.AF_INET, socket.SOCK_DGRAM)
        peer.bind(("127.0.0.1", 0))
        try:
            port = peer.getsockname()[1]
            q = dns.message.make_query("deadline.example.", "A")
            s = await backend.make_socket(socket.AF_INET, socket.SOCK_DGRAM, 0, ("127.0.0.1", 0))
            try:
                try:
                    await asyncio.wait_for(dns.asyncquery.udp(q, "127.0.0.1", timeout=timeout, port=port, sock=s, backend=backend), 15)
                    return "returned"
                except dns.exception.Timeout:
                    return "Timeout"
                except asyncio.TimeoutError:
                    return "still-waiting-after-guard"
            finally:
                await s.close()
        finally:
            peer.close()

    for timeout in (0, 0.05):
        try:
            got = run_async(scenario(timeout))
        except OSError as e:
            ctx.count("obs.loopback_unavailable")
            return
        except Exception as e:
            ctx.violation("real-backend-exchange-raised:" + core.exc_sig(e), repr(e), {"kind": "real-backend", "timeout": timeout})
            return
        ctx.count("evaluations")
        ctx.count("mon.real_asyncio_backend_deadline")
        ctx.seen(("real-backend", timeout, got))
        if got != "Timeout":
            ctx.violation(f"exchange-with-no-time-left-does-not-time-out:asyncio-backend:timeout-{timeout}", got, {"kind": "real-backend", "timeout": timeout})
            return


def check_fallback(ctx, rng, is_async):
    """udp_with_fallback: a genuine TC reply over UDP, then the same exchange over TCP -- with the caller's options (one RR per
    RRset, ignore trailing octets) applied to BOTH legs"""
    ctx.count("evaluations")
    ctx.count("mon.udp_with_fallback")
    choose_destination(rng)
    q = make_query(rng)
    one, trailing = rng.random() < 0.5, rng.random() < 0.5
    junk = rng.random() < 0.5
    tcw, _ = datagram("genuine_tc", q, rng)
    full = response_wire(q, rng)  # two A records in one RRset
    frame = full + (b"\x00junk" if junk else b"")
    stream = struct.pack("!H", len(frame)) + frame
    n = rng.randint(1, 6)
    cuts = sorted(rng.sample(range(1, len(stream)), min(n, len(stream) - 1)))
    parts = [b - a for a, b in zip([0] + cuts, cuts + [len(stream)])]
    ufake = FakeUDPSocket([("dgram", tcw, REPLY_FROM)])
    tfake = FakeStream(stream, parts, set())
    clock = Clock()
    mode = "async" if is_async else "sync"
    case = {"kind": "fallback", "mode": mode, "one_rr_per_rrset": one, "ignore_trailing": trailing, "trailing_octets_in_frame": junk, "where": WHERE}
    try:
        with swap_attr(dns.query, "time", clock), swap_attr(dns.query, "_wait_for", scripted_wait_for), swap_attr(dns.asyncquery, "time", clock):
            if is_async:
                r, used_tcp = run_async(dns.asyncquery.udp_with_fallback(q, WHERE, timeout=5, port=DEST[1], one_rr_per_rrset=one, ignore_trailing=trailing,
                                                                         udp_sock=AsyncUDP(ufake), tcp_sock=AsyncStream(tfake)))
            else:
                r, used_tcp = dns.query.udp_with_fallback(q, WHERE, timeout=5, port=DEST[1], one_rr_per_rrset=one, ignore_trailing=trailing, udp_sock=ufake, tcp_sock=tfake)
        got = "return"
    except dns.message.TrailingJunk:
        got = "TrailingJunk"
    except Exception as e:
        ctx.violation(f"udp_with_fallback-raised:{mode}:" + core.exc_sig(e), repr(e), case)
        return
    want = "TrailingJunk" if junk and not trailing else "return"
    ctx.seen(("fallback", mode, one, trailing, junk, got))
    if got != want:
        ctx.violation(f"udp_with_fallback-tcp-leg-ignores-caller-options:{mode}:{got}-expected-{want}", f"one_rr_per_rrset={one} ignore_trailing={trailing} trailing octets in frame={junk}", case)
        return
    if got == "return":
        if not used_tcp:
            ctx.violation(f"udp_with_fallback-did-not-fall-back:{mode}", "", case)
            return
        n_sets = len(r.answer)
        n_records = sum(len(x) for x in dns.message.from_wire(full).answer)
        if n_sets != (n_records if one else 1):
            ctx.violation(f"udp_with_fallback-tcp-leg-ignores-caller-options:{mode}:one_rr_per_rrset", f"asked {one}: {n_sets} answer RRsets for two records of one RRset", case)


def run(spec, ctx):
    rng = ctx.rng
    check_real_backend_deadline(ctx, rng)
    for i in range(200):
        check_fallback(ctx, rng, is_async=(i % 2 == 1))
        check_flood(ctx, rng, is_async=(i % 2 == 1))
        check_send_tcp_message(ctx, rng, is_async=(i % 2 == 0))
    # exhaustive over option combinations x single-category preludes before the genuine reply
    combos = [(a, b, c, d) for a in (False, True) for b in (False, True) for c in (False, True) for d in (False, True)]
    k = 0
    for combo in combos:
        for cat in CATS[:-3] + ["block", "expire"]:
            for tail in (["genuine"], []):
                k += 1
                if k % spec["parts"] != spec["part"]:
                    continue
                opts = dict(zip(("ignore_unexpected", "ignore_errors", "raise_on_truncation", "ignore_trailing"), combo))
                opts["one_rr_per_rrset"] = False
                for is_async in (False, True):
                    check_udp(ctx, rng, is_async, cats=[cat] + tail, opts=dict(opts))
                ctx.count("exhaustive.option_x_category_cases")
    for i in range(spec["n_udp"]):
        if ctx.expired(0.55):
            break
        check_udp(ctx, rng, is_async=(i % 2 == 1))
    for i in range(spec["n_tcp"]):
        if ctx.expired(1.0):
            break
        check_tcp(ctx, rng, is_async=(i % 3 == 2))
        for j in range(8):
            check_tcp_deadline(ctx, rng, is_async=(j % 2 == 1))
    if ctx.shard == 0:
        ctx.sample({"datagram_categories": CATS, "destination": DEST})


def replay(case, ctx):
    import random

    rng = random.Random(1)
    if case.get("kind") == "udp":
        check_udp(ctx, rng, case["mode"] == "async", cats=list(case["cats"]), opts=dict(case["opts"]))
    else:
        ctx.notes.append("stream cases are regenerated from the seed")
