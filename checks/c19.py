"""C19 — the copy-on-write B-tree is a correct sorted map with isolated clones."""

import copy
import itertools

import dns.btree
import dns.name

from vlib import core

PROP = "C19"
LEVEL = "exploration"
RULE = (
    "random histories over BTreeDict / BTreeSet for t in {3,4,5,8,127}, in_order on/off, key sets of small integers or DNS names "
    "(so that small t gives 3-5 levels): insert, replace, delete (present/absent), get, in, len, pop, popitem, setdefault, update, "
    "clear, iteration (also with mutation during iteration), delete_exact, make_immutable, clone (BTree(original=) / copy.copy) "
    "forming a DAG of live trees, and cursor seek/seek_first/seek_last/next/prev on cursors held open across mutations, judged "
    "by the cut-point model; after every step every live tree is compared with its own sorted-dict model and walked structurally; "
    "frozen trees must refuse every mutator and keep their node fingerprints. Exhaustive: every insertion order of 6 (quick) / 8 "
    "(thorough) keys at t=3 followed by deletions. Distinct by (t, in_order, op, outcome, depth, number of live trees)."
)
RULE += " " + (
    "Also: released generations with address reuse; element-level mutators on frozen trees; one cursor rewound with seek_first / seek_last and walked across a multi-level tree."
)
ASSUMPTIONS = [
    "sorted-dict and cursor cut-point models in this file (DESIGN.md Appendix B5)",
    "structural walk reads BTree.root / node.elts / node.children as an optional witness; the deciding oracle is the model at the public API",
]
REQUIRED = ["mon.drill_cursor_rewound_and_walked", "mon.drill_released_generations", "mon.drill_full_shared_root", "mon.drill_delete_all", "mon.drill_cursor_on_falsy_key", "mon.delete_exact_refused", "mon.step", "mon.tree_equals_model", "mon.structure_walk", "mon.frozen_refuses", "mon.frozen_fingerprint", "mon.cursor_op", "mon.exhaustive_orders"]
BUDGET = {"quick": 40.0, "thorough": 420.0}


def shards(tier, seed):
    mult = 1 if tier == "quick" else 90
    return [{"n": 14 * mult, "steps": 220, "exh_keys": 6 if tier == "quick" else 8, "exh_part": i, "exh_parts": 16} for i in range(16)]


class Live:
    def __init__(self, tree, model, t, kind):
        self.tree, self.model, self.t, self.kind = tree, model, t, kind
        self.frozen = False
        self.fp = None
        self.cursors = []  # (cursor, cut)


def walk(ctx, lv, case, tag):
    """structural witness; returns depth or None on violation"""
    tree = lv.tree
    root = getattr(tree, "root", None)
    if root is None or not hasattr(root, "elts"):
        return 0
    ctx.count("mon.structure_walk")
    t = lv.t
    keys = []
    depths = set()
    bad = []

    def rec(node, depth, is_root):
        n = len(node.elts)
        if not is_root and not (t - 1 <= n <= 2 * t - 1):
            bad.append(f"node with {n} keys (t={t}) at depth {depth}")
        if is_root and n == 0 and not node.is_leaf:
            bad.append("empty internal root")
        if n > 2 * t - 1:
            bad.append(f"node with {n} keys exceeds maximum")
        if node.is_leaf:
            depths.add(depth)
            if node.children:
                bad.append("leaf with children")
            for e in node.elts:
                keys.append(e.key())
        else:
            if len(node.children) != n + 1:
                bad.append(f"internal node with {n} keys and {len(node.children)} children")
                return
            for i, c in enumerate(node.children):
                rec(c, depth + 1, False)
                if i < n:
                    keys.append(node.elts[i].key())

    rec(root, 0, True)
    if len(depths) > 1:
        bad.append(f"leaves at depths {sorted(depths)}")
    if any(not (keys[i] < keys[i + 1]) for i in range(len(keys) - 1)):
        bad.append("in-order key sequence not strictly increasing")
    if len(keys) != len(tree):
        bad.append(f"size {len(tree)} but {len(keys)} keys in nodes")
    if bad:
        ctx.violation(f"btree-structure-invalid:{tag}", "; ".join(bad[:4]), case)
        return None
    return max(depths) if depths else 0


def fingerprint(tree):
    out = {}

    def rec(node):
        out[id(node)] = (tuple(id(e) for e in node.elts), tuple(id(c) for c in node.children), node)
        for c in node.children:
            rec(c)

    root = getattr(tree, "root", None)
    if root is not None and hasattr(root, "elts"):
        rec(root)
    return out


def items_of(lv):
    if lv.kind == "dict":
        return list(lv.tree.items())
    return [(k, None) for k in lv.tree]


def compare(ctx, lv, case, tag, idx):
    ctx.count("mon.tree_equals_model")
    want = sorted(lv.model.items())
    try:
        got = items_of(lv)
    except Exception as e:
        ctx.violation(f"btree-iteration-raised:{tag}:" + core.exc_sig(e), repr(e), case)
        return False
    if got != want or len(lv.tree) != len(want):
        ctx.violation(f"btree-differs-from-model:{tag}:{'frozen' if lv.frozen else 'mutable'}-tree", f"tree {idx}: {len(got)} items vs model {len(want)}; first diff {next(((a, b) for a, b in zip(got, want) if a != b), None)}", case)
        return False
    return True


def cursor_expect(model_keys, cut, op):
    """cut: ('-inf',) | ('before', k) | ('after', k) | ('+inf',).  Returns (result key or None, new cut)"""
    ks = model_keys
    if op == "next":
        if cut[0] == "-inf":
            c = [k for k in ks]
        elif cut[0] == "before":
            c = [k for k in ks if k >= cut[1]]
        elif cut[0] == "after":
            c = [k for k in ks if k > cut[1]]
        else:
            c = []
        if c:
            return c[0], ("after", c[0])
        return None, ("+inf",)
    else:
        if cut[0] == "+inf":
            c = [k for k in ks]
        elif cut[0] == "before":
            c = [k for k in ks if k < cut[1]]
        elif cut[0] == "after":
            c = [k for k in ks if k <= cut[1]]
        else:
            c = []
        if c:
            return c[-1], ("before", c[-1])
        return None, ("-inf",)


def history(ctx, rng, steps):
    ctx.count("evaluations")
    t = rng.choice((3, 3, 3, 4, 5, 8, 127))
    in_order = rng.random() < 0.4
    kind = rng.choice(("dict", "dict", "dict", "set"))
    names = rng.random() < 0.25
    nkeys = rng.choice((8, 30, 120, 600)) if t < 100 else rng.choice((300, 2000))
    if names:
        universe = [dns.name.from_text(f"{chr(97 + i % 26)}{i}.x{i % 7}.example.") for i in range(min(nkeys, 200))]
    else:
        universe = list(range(min(nkeys, 600) if t < 100 else nkeys))
    mk = (lambda **kw: dns.btree.BTreeDict(t=t, in_order=in_order, **kw)) if kind == "dict" else (lambda **kw: dns.btree.BTreeSet(t=t, in_order=in_order, **kw))
    tag = f"{kind}:t{t if t < 100 else 'big'}"
    trace = []
    case = {"kind": "hist", "t": t, "in_order": in_order, "tree": kind, "names": names, "trace": trace}
    live = [Live(mk(), {}, t, kind)]
    val = [0]
    phase = "grow"
    for step in range(steps):
        ctx.count("mon.step")
        if step % 60 == 59:
            phase = rng.choice(("grow", "shrink", "mixed"))
        mutable = [l for l in live if not l.frozen]
        if not mutable:
            src = rng.choice(live)
            live.append(Live(mk(original=src.tree), dict(src.model), t, kind))
            mutable = [live[-1]]
        lv = rng.choice(mutable)
        ops = ["set", "set", "del", "get", "contains", "len", "iter"]
        if phase == "grow":
            ops += ["set"] * 6 + ["update"]
        elif phase == "shrink":
            ops += ["del"] * 8 + ["pop", "popitem"]
        else:
            ops += ["set", "del", "del", "pop", "setdefault", "update", "popitem"]
        ops += ["freeze_clone"] if len(live) < 6 and rng.random() < 0.3 else []
        ops += ["cursor_new", "cursor_op", "cursor_op", "cursor_op", "cursor_close", "clear", "iter_mutate", "delete_exact", "delete_exact_mismatch", "del_missing", "cursor_boundary_drill"] if rng.random() < 0.5 else []
        op = rng.choice(ops)
        k = rng.choice(universe)
        trace.append((op, str(k) if names else k))
        try:
            tr, m = lv.tree, lv.model
            if kind == "set" and op in ("get", "pop", "popitem", "setdefault", "update", "delete_exact", "delete_exact_mismatch"):
                op = rng.choice(("set", "del"))
            if op == "set":
                val[0] += 1
                if kind == "dict":
                    tr[k] = val[0]
                    m[k] = val[0]
                else:
                    tr.add(k)
                    m[k] = None
            elif op == "del":
                present = [x for x in m]
                if present and rng.random() < 0.85:
                    k = rng.choice(present)
                if kind == "dict":
                    try:
                        del tr[k]
                        if k not in m:
                            ctx.violation(f"btree-delete-missing-did-not-raise:{tag}", str(k), case)
                            return
                    except KeyError:
                        if k in m:
                            ctx.violation(f"btree-delete-present-raised:{tag}", str(k), case)
                            return
                else:
                    tr.discard(k)
                m.pop(k, None)
            elif op == "del_missing":
                absent = [x for x in universe[:50] if x not in m]
                if absent and kind == "dict":
                    k = rng.choice(absent)
                    try:
                        del tr[k]
                        ctx.violation(f"btree-delete-missing-did-not-raise:{tag}", str(k), case)
                        return
                    except KeyError:
                        pass
            elif op == "get":
                if tr.get(k, "absent") != m.get(k, "absent"):
                    ctx.violation(f"btree-get-differs:{tag}", str(k), case)
                    return
            elif op == "contains":
                if (k in tr) != (k in m):
                    ctx.violation(f"btree-contains-differs:{tag}", str(k), case)
                    return
            elif op == "len":
                if len(tr) != len(m):
                    ctx.violation(f"btree-len-differs:{tag}", f"{len(tr)} vs {len(m)}", case)
                    return
            elif op == "iter":
                pass
            elif op == "pop":
                d = object()
                got = tr.pop(k, d)
                want = m.pop(k, d)
                if got is not want and got != want:
                    ctx.violation(f"btree-pop-differs:{tag}", str(k), case)
                    return
            elif op == "popitem":
                if m:
                    kk, vv = tr.popitem()
                    if kk not in m or m[kk] != vv:
                        ctx.violation(f"btree-popitem-returned-nonmember:{tag}", str(kk), case)
                        return
                    del m[kk]
            elif op == "setdefault":
                val[0] += 1
                got = tr.setdefault(k, val[0])
                want = m.setdefault(k, val[0])
                if got != want:
                    ctx.violation(f"btree-setdefault-differs:{tag}", str(k), case)
                    return
            elif op == "update":
                upd = {}
                for _ in range(rng.randint(1, 12)):
                    val[0] += 1
                    upd[rng.choice(universe)] = val[0]
                tr.update(upd)
                m.update(upd)
            elif op == "clear":
                if rng.random() < 0.2:
                    tr.clear()
                    m.clear()
            elif op == "iter_mutate":
                # mutation during iteration must not raise and must yield increasing keys
                seen_keys = []
                n = 0
                for kk in tr:
                    seen_keys.append(kk)
                    n += 1
                    if n % 3 == 0:
                        k2 = rng.choice(universe)
                        if rng.random() < 0.5:
                            val[0] += 1
                            if kind == "dict":
                                tr[k2] = val[0]
                                m[k2] = val[0]
                            else:
                                tr.add(k2)
                                m[k2] = None
                        else:
                            if kind == "dict":
                                tr.pop(k2, None)
                            else:
                                tr.discard(k2)
                            m.pop(k2, None)
                    if n > 3000:
                        break
                if any(not (seen_keys[i] < seen_keys[i + 1]) for i in range(len(seen_keys) - 1)):
                    ctx.violation(f"btree-iteration-under-mutation-not-increasing:{tag}", "", case)
                    return
            elif op == "delete_exact":
                if m and kind == "dict":
                    kk = rng.choice(list(m))
                    elt = tr.get_element(kk)
                    r = tr.delete_exact(elt)
                    if r is not elt:
                        ctx.violation(f"btree-delete_exact-wrong-element:{tag}", "", case)
                        return
                    del m[kk]
            elif op == "delete_exact_mismatch":
                # an element that is not the stored one (same key, other object) or whose key is absent: refused with ValueError,
                # nothing changes -- and the tree is still a well-formed B-tree afterwards (the descent rebalances as it goes)
                if m and kind == "dict":
                    kk = rng.choice(list(m)) if rng.random() < 0.6 else rng.choice(universe)
                    try:
                        tr.delete_exact(dns.btree.KV(kk, "not-the-stored-element"))
                        ctx.violation(f"btree-delete_exact-accepted-foreign-element:{tag}", str(kk), case)
                        return
                    except ValueError:
                        ctx.count("mon.delete_exact_refused")
            elif op == "freeze_clone":
                lv.tree.make_immutable()
                lv.frozen = True
                lv.fp = fingerprint(lv.tree)
                for c, _ in lv.cursors:
                    pass
                for _ in range(rng.choice((1, 1, 2))):
                    if rng.random() < 0.5:
                        nt = mk(original=lv.tree)
                    else:
                        nt = copy.copy(lv.tree)
                    if getattr(nt, "t", t) != t:
                        ctx.violation(f"clone-has-different-t:{tag}", "", case)
                    live.append(Live(nt, dict(lv.model), t, kind))
            elif op == "cursor_new":
                if len(lv.cursors) < 3:
                    c = tr.cursor()
                    c.__enter__()
                    if rng.random() < 0.5:
                        c.seek_first()
                        cut = ("-inf",)
                    else:
                        c.seek_last()
                        cut = ("+inf",)
                    lv.cursors.append([c, cut])
            elif op == "cursor_op":
                if lv.cursors:
                    ctx.count("mon.cursor_op")
                    ent = rng.choice(lv.cursors)
                    c, cut = ent
                    cop = rng.choice(("next", "next", "prev", "prev", "seek_before", "seek_after", "seek_first", "seek_last"))
                    mk_keys = sorted(m)
                    if cop in ("next", "prev"):
                        e = getattr(c, cop)()
                        got = None if e is None else e.key()
                        want, ncut = cursor_expect(mk_keys, cut, cop)
                        if got != want:
                            ctx.violation(f"cursor-differs-from-cut-model:{tag}:{cop}", f"cut {cut} keys around {[x for x in mk_keys if True][:8]}...: cursor {got} model {want}", case)
                            return
                        if e is not None and kind == "dict" and e.value() != m[got]:
                            ctx.violation(f"cursor-returned-stale-value:{tag}", str(got), case)
                            return
                        ent[1] = ncut
                    elif cop == "seek_before":
                        c.seek(k, True)
                        ent[1] = ("before", k)
                    elif cop == "seek_after":
                        c.seek(k, False)
                        ent[1] = ("after", k)
                    elif cop == "seek_first":
                        c.seek_first()
                        ent[1] = ("-inf",)
                    else:
                        c.seek_last()
                        ent[1] = ("+inf",)
            elif op == "cursor_boundary_drill":
                # run a cursor off one end, change the tree at that very end while the cursor sits there (mutation parks it),
                # then come back: the cut model says the new extreme key is the first thing met
                if lv.cursors and m and not names:
                    ctx.count("mon.cursor_op")
                    ctx.count("mon.cursor_boundary_drill")
                    ent = rng.choice(lv.cursors)
                    c, cut = ent
                    fwd = rng.random() < 0.5
                    for _ in range(len(m) + 2):
                        e = c.next() if fwd else c.prev()
                        want, cut = cursor_expect(sorted(m), cut, "next" if fwd else "prev")
                        got = None if e is None else e.key()
                        if got != want:
                            ctx.violation(f"cursor-differs-from-cut-model:{tag}:{'next' if fwd else 'prev'}", f"drill: cursor {got} model {want}", case)
                            return
                        if e is None:
                            break
                    how = rng.choice(("explicit-park", "mutation", "mutation"))
                    if how == "explicit-park":
                        c.park()
                    newk = (max(m) + 1) if fwd else (min(m) - 1)
                    val[0] += 1
                    if kind == "dict":
                        tr[newk] = val[0]
                        m[newk] = val[0]
                    else:
                        tr.add(newk)
                        m[newk] = None
                    for back in range(2):
                        e = c.prev() if fwd else c.next()
                        want, cut = cursor_expect(sorted(m), cut, "prev" if fwd else "next")
                        got = None if e is None else e.key()
                        if got != want:
                            ctx.violation(f"cursor-differs-from-cut-model:{tag}:after-boundary-{how}", f"drill {'forward' if fwd else 'backward'}: cursor {got} model {want}", case)
                            return
                    ent[1] = cut
            elif op == "cursor_close":
                if lv.cursors:
                    c, _ = lv.cursors.pop(rng.randrange(len(lv.cursors)))
                    c.__exit__(None, None, None)
        except dns.btree.Immutable:
            ctx.violation(f"mutable-tree-raised-immutable:{tag}", f"step {step} {op}", case)
            return
        except Exception as e:
            ctx.violation(f"btree-op-raised:{tag}:{op}:" + core.exc_sig(e), repr(e), case)
            return
        # every live tree equals its own model (isolation), structure valid, frozen trees untouched
        depth = 0
        for idx, l in enumerate(live):
            if not compare(ctx, l, case, tag, idx):
                return
            d = walk(ctx, l, case, tag)
            if d is None:
                return
            depth = max(depth, d)
            if l.frozen:
                ctx.count("mon.frozen_fingerprint")
                now = fingerprint(l.tree)
                if {k: v[:2] for k, v in now.items()} != {k: v[:2] for k, v in l.fp.items()}:
                    ctx.violation(f"frozen-tree-nodes-changed:{tag}", f"tree {idx}", case)
                    return
        ctx.seen((tag, in_order, op, depth, len(live)))
    # frozen trees refuse every mutator
    for l in live:
        if not l.frozen:
            continue
        ctx.count("mon.frozen_refuses")
        k = rng.choice(universe)
        muts = [("setitem", lambda: l.tree.__setitem__(k, 1)), ("delitem", lambda: l.tree.__delitem__(next(iter(l.model), k))), ("pop", lambda: l.tree.pop(next(iter(l.model), k))),
                ("clear", lambda: l.tree.clear()), ("update", lambda: l.tree.update({k: 1})), ("setdefault", lambda: l.tree.setdefault(universe[-1] if universe[-1] not in l.model else k, 1)),
                ("popitem", lambda: l.tree.popitem()), ("delete_key", lambda: l.tree.delete_key(next(iter(l.model), k)))] if l.kind == "dict" else \
               [("add", lambda: l.tree.add(k)), ("discard", lambda: l.tree.discard(next(iter(l.model), k))), ("clear", lambda: l.tree.clear()), ("delete_key", lambda: l.tree.delete_key(next(iter(l.model), k)))]
        # the element-level spellings of the same operations
        if l.model:
            some = next(iter(l.model))
            muts.append(("delete_exact", lambda: l.tree.delete_exact(l.tree.get_element(some))))
            muts.append(("insert_element", lambda: l.tree.insert_element(l.tree.get_element(some))))
        before = items_of(l)
        for nm, fn in muts:
            if nm in ("popitem", "clear", "delitem", "pop", "discard", "delete_key") and not l.model:
                continue
            if nm == "setdefault" and (universe[-1] in l.model and k in l.model):
                continue
            try:
                fn()
                ctx.violation(f"frozen-tree-accepts-mutation:{tag}:{nm}", "", case)
                return
            except dns.btree.Immutable:
                pass
            except Exception as e:
                ctx.violation(f"frozen-tree-mutator-wrong-exception:{tag}:{nm}:{type(e).__name__}", repr(e), case)
                return
        if items_of(l) != before:
            ctx.violation(f"frozen-tree-changed-by-refused-mutation:{tag}", "", case)
            return


def exhaustive(ctx, rng, nkeys, part, parts):
    """every insertion order of nkeys keys at t=3 (partitioned over shards), then a deletion order"""
    keys = list(range(nkeys))
    for i, perm in enumerate(itertools.permutations(keys)):
        if i % parts != part:
            continue
        if ctx.expired(0.98):
            return False
        ctx.count("mon.exhaustive_orders")
        ctx.count("evaluations")
        case = {"kind": "exh", "insert": list(perm)}
        for in_order in (False, True):
            tr = dns.btree.BTreeDict(t=3, in_order=in_order)
            lv = Live(tr, {}, 3, "dict")
            try:
                for k in perm:
                    tr[k] = k
                    lv.model[k] = k
                if not compare(ctx, lv, case, "exh", 0) or walk(ctx, lv, case, "exh") is None:
                    return True
                order = list(perm)
                rng.shuffle(order)
                case["delete"] = order
                for k in order:
                    del tr[k]
                    del lv.model[k]
                    if not compare(ctx, lv, case, "exh", 0) or walk(ctx, lv, case, "exh") is None:
                        return True
            except Exception as e:
                ctx.violation("btree-op-raised:exh:" + core.exc_sig(e), repr(e), case)
                return True
    return True


def drills(ctx, rng):
    """three short directed histories for corners the random walk reaches rarely"""
    ctx.count("evaluations")
    t = rng.choice((3, 3, 4, 5))
    kind = rng.choice(("dict", "set"))
    mk = (lambda **kw: dns.btree.BTreeDict(t=t, **kw)) if kind == "dict" else (lambda **kw: dns.btree.BTreeSet(t=t, **kw))

    def put(lv, k, v):
        if kind == "dict":
            lv.tree[k] = v
        else:
            lv.tree.add(k)
        lv.model[k] = v if kind == "dict" else None

    def ok(lv, case, tag, idx=0):
        return compare(ctx, lv, case, tag, idx) and walk(ctx, lv, case, tag) is not None

    tag = f"{kind}:t{t}"
    # (a) a clone whose first mutation is an insert while the root it still shares with the frozen original is exactly full
    ctx.count("mon.drill_full_shared_root")
    case = {"kind": "drill", "drill": "full-shared-root", "t": t, "tree": kind}
    n = rng.choice((2 * t - 1, (2 * t - 1) * (t + 1) + (2 * t - 1)))  # a full single leaf / enough for a full internal root (sometimes)
    orig = Live(mk(), {}, t, kind)
    keys = list(range(0, 4 * n, 4))[:n]
    for k in keys:
        put(orig, k, k)
    orig.tree.make_immutable()
    orig.frozen = True
    fp = fingerprint(orig.tree)
    cl = Live(mk(original=orig.tree), dict(orig.model), t, kind)
    for k in rng.sample(range(1, 4 * n, 2), min(3, n)):
        put(cl, k, -k)
        if not ok(cl, case, tag, 1) or not ok(orig, case, tag, 0):
            return
    now = fingerprint(orig.tree)
    if any(k not in now or now[k][:2] != fp[k][:2] for k in fp):
        ctx.violation(f"frozen-tree-node-changed:{tag}", "a node of the frozen original changed while its clone was written", case)
        return
    # (b) every key deleted, in random order, from a tree three or more levels high: the replacement of a key found in an
    # internal node by its successor goes through rebalancing on the way down
    ctx.count("mon.drill_delete_all")
    case = {"kind": "drill", "drill": "delete-all", "t": t, "tree": kind}
    lv = Live(mk(), {}, t, kind)
    ks = rng.sample(range(500), rng.choice((25, 60, 120)))
    for k in ks:
        put(lv, k, k)
    if not ok(lv, case, tag):
        return
    rng.shuffle(ks)
    case["order"] = ks[:130]
    for k in ks:
        try:
            if kind == "dict":
                del lv.tree[k]
            else:
                lv.tree.remove(k)
        except Exception as e:
            ctx.violation(f"btree-delete-present-raised:{tag}", f"{k}: {e!r}", case)
            return
        del lv.model[k]
        if not ok(lv, case, tag):
            return
    # (d) the life cycle of a versioned zone: each generation is a clone of the newest frozen tree, edited a little and frozen;
    # only the newest two generations stay referenced, so older trees are RELEASED while their nodes live on in the newer ones
    # and the interpreter may hand a released tree's memory to the next clone
    ctx.count("mon.drill_released_generations")
    case = {"kind": "drill", "drill": "released-generations", "t": t, "tree": kind}
    gen = Live(mk(), {}, t, kind)
    for k in range(0, 6 * (2 * t), 3):
        put(gen, k, 0)
    gen.tree.make_immutable()
    gen.frozen = True
    kept = [gen]
    for g in range(1, rng.randint(4, 9)):
        newest = kept[-1]
        nxt = Live(None, dict(newest.model), t, kind)
        nxt.tree = mk(original=newest.tree)  # allocated after the release below, i.e. possibly where a released tree was
        for _ in range(rng.randint(1, 6)):
            k = rng.randrange(0, 6 * (2 * t) + 3)
            if k in nxt.model and rng.random() < 0.5:
                nxt.tree.pop(k) if kind == "dict" else nxt.tree.remove(k)
                del nxt.model[k]
            else:
                put(nxt, k, g)
            for j, lv in enumerate(kept):
                if not compare(ctx, lv, case, tag + ":older-generations-released", j):
                    return
        if not ok(nxt, case, tag):
            return
        nxt.tree.make_immutable()
        nxt.frozen = True
        kept.append(nxt)
        ctx.seen(("released-generations", kind, t, min(g, 4)))
        while len(kept) > 2:
            del kept[0]  # the only reference: the tree object goes, its nodes stay shared
        del newest, lv
    # (e) one cursor object used again: parked somewhere deep in a tree of several levels, sent back to an end with seek_first /
    # seek_last, and walked across the whole tree with no mutation in between: every key once, then None
    ctx.count("mon.drill_cursor_rewound_and_walked")
    case = {"kind": "drill", "drill": "cursor-rewound", "t": t, "tree": kind}
    lv = Live(mk(), {}, t, kind)
    nkeys = rng.choice((30, 60, 200))
    for k in rng.sample(range(1000), nkeys):
        put(lv, k, k)
    allk = sorted(lv.model)
    with lv.tree.cursor() as c:
        for round_ in range(rng.randint(1, 3)):
            c.seek(rng.choice(allk), rng.random() < 0.5)
            for _ in range(rng.randint(0, 7)):
                (c.next if rng.random() < 0.5 else c.prev)()
            forward = rng.random() < 0.5
            (c.seek_first if forward else c.seek_last)()
            seen_keys = []
            for _ in range(nkeys + 5):
                e = c.next() if forward else c.prev()
                if e is None:
                    break
                seen_keys.append(e.key())
            want_keys = allk if forward else allk[::-1]
            if seen_keys != want_keys:
                ctx.violation(f"cursor-walk-after-rewind-differs:{tag}:{'seek_first' if forward else 'seek_last'}", f"{len(seen_keys)} keys returned for {nkeys} in the tree; first difference at {next((i for i, (a, b) in enumerate(zip(seen_keys, want_keys)) if a != b), min(len(seen_keys), len(want_keys)))}", case)
                return
            again = c.next() if forward else c.prev()
            if again is not None:
                ctx.violation(f"cursor-walk-after-rewind-differs:{tag}:past-the-end", f"returned {again.key()} after None", case)
                return
    # (c) a cursor standing on a key that is falsy (0, the empty name) when the tree changes under it
    ctx.count("mon.drill_cursor_on_falsy_key")
    case = {"kind": "drill", "drill": "cursor-on-falsy-key", "t": t, "tree": kind}
    use_names = rng.random() < 0.4
    lv = Live(mk(), {}, t, kind)
    universe = [dns.name.empty] + [dns.name.Name((bytes([97 + i]),)) for i in range(20)] if use_names else list(range(0, 40))
    for k in rng.sample(universe[1:], 9) + [universe[0]]:
        put(lv, k, str(k))
    c = lv.tree.cursor()
    c.__enter__()
    try:
        c.seek_first()
        e = c.next()
        if e is None or e.key() != universe[0]:
            ctx.violation(f"cursor-differs-from-cut-model:{tag}:next", f"first key {None if e is None else e.key()}", case)
            return
        cut = ("after", universe[0])
        for _ in range(rng.randint(1, 6)):
            op = rng.choice(("del0", "ins", "ins", "del"))
            if op == "del0" and universe[0] in lv.model:
                lv.tree.pop(universe[0]) if kind == "dict" else lv.tree.remove(universe[0])
                del lv.model[universe[0]]
            elif op == "ins":
                k = rng.choice(universe)
                put(lv, k, "n")
            elif op == "del" and len(lv.model) > 1:
                k = rng.choice([x for x in lv.model if x != universe[0]])
                lv.tree.pop(k) if kind == "dict" else lv.tree.remove(k)
                del lv.model[k]
            step = rng.choice(("next", "prev", "next"))
            e = getattr(c, step)()
            want, cut = cursor_expect(sorted(lv.model), cut, step)
            got = None if e is None else e.key()
            if got != want:
                ctx.violation(f"cursor-differs-from-cut-model:{tag}:{step}:cursor-parked-on-falsy-key", f"after {op}: cursor {got} model {want}", case)
                return
    finally:
        c.__exit__(None, None, None)


def run(spec, ctx):
    rng = ctx.rng
    for i in range(spec["n"]):
        if ctx.expired(0.7):
            break
        history(ctx, rng, spec["steps"])
        for _ in range(3):
            drills(ctx, rng)
    done = exhaustive(ctx, rng, spec["exh_keys"], spec["exh_part"], spec["exh_parts"])
    if done:
        ctx.count("exhaustive.partitions_completed")
    if ctx.shard == 0:
        ctx.sample({"history_ops": ["set", "del", "get", "pop", "popitem", "setdefault", "update", "clear", "iter_mutate", "delete_exact", "freeze_clone", "cursor seek/next/prev"], "t_values": [3, 4, 5, 8, 127]})


def coverage_extra(tier, counters, tables):
    return {"exhaustive": False, "exhaustive_subspace": f"all insertion orders of {6 if tier == 'quick' else 8} keys at t=3: {int(counters.get('exhaustive.partitions_completed', 0))}/16 partitions completed"}


def replay(case, ctx):
    if case.get("kind") == "exh":
        lv = Live(dns.btree.BTreeDict(t=3), {}, 3, "dict")
        for k in case["insert"]:
            lv.tree[k] = k
            lv.model[k] = k
        compare(ctx, lv, case, "exh", 0)
        walk(ctx, lv, case, "exh")
        for k in case.get("delete", []):
            del lv.tree[k]
            del lv.model[k]
            compare(ctx, lv, case, "exh", 0)
            walk(ctx, lv, case, "exh")
        ctx.count("mon.exhaustive_orders")
    else:
        ctx.notes.append("histories are regenerated from the seed")
