"""C20 — B-tree zone flags, delegation index and bounds are a function of zone content."""

import dns.btreezone
import dns.exception
import dns.name
import dns.rdata
import dns.rdataset
import dns.rdatatype
import dns.zone

from vlib import core
from vlib.gen import names as GN
from vlib.ref import names as RN

PROP = "C20"
LEVEL = "exploration"
RULE = (
    "histories on dns.btreezone.Zone (relativized and absolute): initial load from master-file text in random record order, then "
    "committed transactions that add / delete / replace NS and other record types at, above and below delegation points (nested "
    "cuts, glue, empty non-terminals, CNAME inserted at a cut, node deletions). After every commit the node flags, the delegation "
    "index and the iteration order of the committed version are compared with a reference computed from the content alone (B6), and "
    "bounds() is compared with a brute-force reference for query names drawn from zone names, their successor/predecessor neighbours, "
    "names beneath cuts and empty non-terminals, and names before the first / after the last. Distinct by (relativize, step kind, "
    "number of cuts, nested cuts present, query class)."
)
ASSUMPTIONS = [
    "reference B6 (DESIGN.md Appendix B6): flags, delegation index and bounds as functions of content",
    "flags and the delegation index are read from the committed version object (version.nodes[*].flags, version.delegations)",
]
REQUIRED = ["mon.histories_with_multi_operation_transactions", "mon.replacement_transactions", "mon.flags_from_content", "mon.delegation_index", "mon.iteration_order", "mon.bounds_query", "mon.histories_with_nested_cuts", "mon.histories_with_cname_at_cut"]
BUDGET = {"quick": 40.0, "thorough": 420.0}

ORIGIN = (b"example", b"")
LABELS = [b"a", b"b", b"c", b"d", b"ns", b"z", b"*", b"_x"]


def shards(tier, seed):
    mult = 1 if tier == "quick" else 24
    return [{"n": 250 * mult} for _ in range(16)]


def fold(n):
    return tuple(RN.fold(l) for l in n)


class RefZone:
    """content: folded abs name -> set of rdtypes (with a payload id per type so replacements are visible)"""

    def __init__(self):
        self.c = {}

    def add(self, name, rdtype):
        # CNAME/other-data rule of nodes
        # (dns.node: CNAME and RRSIG(CNAME) are "CNAME-like"; NSEC, NSEC3, KEY and their RRSIGs are neutral; everything else,
        # RRSIG(A) included, is regular.  Adding one kind evicts the other.)  RRSIG sets are keyed (46, covered type).
        s = self.c.setdefault(name, set())
        neutral = (47, 50, 25, (46, 47), (46, 50), (46, 25))
        cname_like = (5, (46, 5))
        if rdtype in cname_like:
            for t in [t for t in s if t not in neutral and t not in cname_like]:
                s.discard(t)
        elif rdtype not in neutral:
            for t in cname_like:
                s.discard(t)
        s.add(rdtype)

    def delete(self, name, rdtype=None):
        if name not in self.c:
            return
        if rdtype is None:
            del self.c[name]
        else:
            self.c[name].discard(rdtype)
            if not self.c[name]:
                del self.c[name]

    def derived(self):
        okey = fold(ORIGIN)
        nsown = {n for n, ts in self.c.items() if 2 in ts and n != okey}
        D = {n for n in nsown if not any(len(n) > len(a) and RN.is_subdomain(n, a) for a in nsown if a != n)}
        flags = {}
        for n in self.c:
            f = 0
            if n == okey:
                f |= 1
            if n in D:
                f |= 2
            if any(len(n) > len(d) and RN.is_subdomain(n, d) for d in D):
                f |= 4
            flags[n] = f
        return flags, D

    def bounds(self, q):
        flags, D = self.derived()
        visible = sorted((n for n in self.c if not flags[n] & 4), key=RN.key)
        kq = RN.key(q)
        le = [n for n in visible if RN.key(n) <= kq]
        gt = [n for n in visible if RN.key(n) > kq]
        left = le[-1] if le else None
        right = gt[0] if gt else None
        is_deleg = any(RN.is_subdomain(q, d) for d in D)
        ce = fold(ORIGIN)
        for i in range(len(q)):
            suf = q[i:]
            if len(suf) < len(ORIGIN):
                break
            if any(RN.is_subdomain(n, suf) for n in visible):
                ce = suf
                break
        return left, right, ce, left == q, is_deleg


def rd_for(rdtype, tag):
    if isinstance(rdtype, tuple):
        return dns.rdata.from_text("IN", "RRSIG", f"{dns.rdatatype.to_text(rdtype[1])} 8 2 300 20300101000000 20200101000000 {tag % 60000} example. q83v")
    t = dns.rdatatype.to_text(rdtype)
    text = {"A": f"10.0.0.{tag % 250 + 1}", "NS": f"ns{tag % 5}.elsewhere.", "TXT": f'"t{tag}"', "CNAME": f"target{tag % 3}.elsewhere.", "MX": f"{tag % 50} mx.elsewhere.",
            "DS": f"{tag % 60000} 8 2 " + "ab" * 32, "AAAA": f"2001:db8::{tag % 999 + 1:x}"}[t]
    return dns.rdata.from_text("IN", t, text)


def check_version(ctx, z, ref, relativize, case, tag, rng, step_kind):
    origin = dns.name.Name(ORIGIN)
    with z.reader() as txn:
        v = txn.version
        flags, D = ref.derived()
        # content agreement (harness sanity + CNAME rule)
        got_content = {}
        got_flags = {}
        for name, node in v.nodes.items():
            k = fold(name.derelativize(origin).labels)
            got_content[k] = {int(r.rdtype) if int(r.rdtype) != 46 else (46, int(r.covers)) for r in node.rdatasets}
            got_flags[k] = int(node.flags)
        if got_content != {k: set(s) for k, s in ref.c.items()}:
            ctx.violation(f"zone-content-differs-from-reference:{tag}", f"after {step_kind}", case)
            return False
        ctx.count("mon.flags_from_content")
        if got_flags != flags:
            bad = [(RN.to_text(k), got_flags[k], flags[k]) for k in flags if got_flags.get(k) != flags[k]]
            kinds = set()
            for k, g, w in bad:
                d = g ^ w
                for bit, nm in ((1, "ORIGIN"), (2, "DELEGATION"), (4, "GLUE")):
                    if d & bit:
                        kinds.add(f"{nm}-{'missing' if w & bit else 'stale'}")
            nested = any(any(len(a) > len(b) and RN.is_subdomain(a, b) for b in ref_nsown(ref) if b != a) for a in ref_nsown(ref))
            ctx.violation(f"node-flags-differ-from-content:{'+'.join(sorted(kinds))}:{'nested-cuts' if nested else 'flat'}", f"after {step_kind}: (name, library flags, reference flags) {bad[:5]}", case)
            return False
        ctx.count("mon.delegation_index")
        got_D = {fold(n.derelativize(origin).labels) for n in v.delegations}
        if got_D != D:
            nested = any(any(len(a) > len(b) and RN.is_subdomain(a, b) for b in ref_nsown(ref) if b != a) for a in ref_nsown(ref))
            ctx.violation(f"delegation-index-differs-from-content:{'stale-entry' if got_D - D else ''}{'missing-entry' if D - got_D else ''}:{'nested-cuts' if nested else 'flat'}",
                          f"after {step_kind}: library {[RN.to_text(x) for x in got_D]} reference {[RN.to_text(x) for x in D]}", case)
            return False
        ctx.count("mon.iteration_order")
        it = [fold(n.derelativize(origin).labels) for n in txn.iterate_names()]
        if it != sorted(it, key=RN.key) or set(it) != set(ref.c):
            ctx.violation(f"iteration-not-canonical-order:{tag}", "", case)
            return False
        # bounds queries
        names = sorted(ref.c, key=RN.key)
        qs = set()
        for n in names:
            qs.add(n)
            qs.add((b"\x00",) + n)
            qs.add((b"zz",) + n)
            qs.add((b"q", b"ent") + n)
            if len(n) > len(ORIGIN):
                l0 = n[0]
                qs.add((l0 + b"\x00",) + n[1:])
                qs.add((l0[:-1] or b"0",) + n[1:])
                qs.add(n[1:])
        qs.add(fold(ORIGIN))
        qs.add((b"\xff" * 5,) + fold(ORIGIN))
        qs = [q for q in qs if RN.fits(q) and RN.is_subdomain(q, fold(ORIGIN))]
        rng.shuffle(qs)
        for q in qs[:25]:
            ctx.count("mon.bounds_query")
            qn = dns.name.Name(q)
            if relativize and rng.random() < 0.5:
                qn = qn.relativize(origin)
            try:
                b = v.bounds(qn)
            except Exception as e:
                ctx.violation(f"bounds-raised:{tag}:" + core.exc_sig(e), f"q={RN.to_text(q)}: {e!r}", case)
                return False
            left, right, ce, is_eq, is_deleg = ref.bounds(q)
            gl = fold(b.left.derelativize(origin).labels)
            gr = fold(b.right.derelativize(origin).labels) if b.right is not None else None
            gce = fold(b.closest_encloser.derelativize(origin).labels)
            qclass = "in-zone" if q in ref.c else "beneath-cut" if is_deleg else "absent"
            ctx.seen((relativize, step_kind, min(len(D), 3), qclass))
            if gl != left:
                ctx.violation(f"bounds-left-wrong:{qclass}:{'is-glue' if flags.get(gl, 0) & 4 else 'not-nearest'}", f"q={RN.to_text(q)} library {RN.to_text(gl)} reference {RN.to_text(left)}", case)
                return False
            if gr != right:
                ctx.violation(f"bounds-right-wrong:{qclass}", f"q={RN.to_text(q)} library {RN.to_text(gr) if gr else None} reference {RN.to_text(right) if right else None}", case)
                return False
            if gce != ce:
                at_origin = ce == fold(ORIGIN)
                ctx.violation(f"bounds-closest-encloser-wrong:{qclass}:{'encloser-is-origin' if at_origin else 'other'}:{'relativized' if relativize else 'absolute'}",
                              f"q={RN.to_text(q)} library {RN.to_text(gce)} reference {RN.to_text(ce)}", case)
                return False
            if b.is_equal != is_eq:
                ctx.violation(f"bounds-is_equal-wrong:{qclass}", f"q={RN.to_text(q)}", case)
                return False
            if b.is_delegation != is_deleg:
                ctx.violation(f"bounds-is_delegation-wrong:{qclass}", f"q={RN.to_text(q)} library {b.is_delegation} reference {is_deleg}", case)
                return False
    return True


def ref_nsown(ref):
    okey = fold(ORIGIN)
    return {n for n, ts in ref.c.items() if 2 in ts and n != okey}


def history(ctx, rng):
    ctx.count("evaluations")
    relativize = rng.random() < 0.5
    origin = dns.name.Name(ORIGIN)
    tag = "rel" if relativize else "abs"
    # name pool with structure: cuts, things beneath, siblings, ENTs
    pool = [ORIGIN]
    for _ in range(rng.randint(3, 7)):
        depth = rng.choice((1, 1, 2, 2, 3))
        n = tuple(rng.choice(LABELS) for _ in range(depth)) + ORIGIN
        pool.append(n)
        if rng.random() < 0.5:
            pool.append((rng.choice(LABELS),) + n)
    pool = list(dict.fromkeys(pool))
    ref = RefZone()
    steps = []
    case = {"kind": "hist", "relativize": relativize, "steps": steps}
    # initial load from text in random record order
    recs = [(ORIGIN, 6), (ORIGIN, 2)]
    for _ in range(rng.randint(2, 10)):
        recs.append((rng.choice(pool), rng.choice((1, 1, 2, 2, 2, 16, 15, 28, 43))))
    recs = [r for r in recs if not (r[1] == 43 and r[0] == ORIGIN)]
    body = recs[2:]
    rng.shuffle(body)
    order = recs[:1] + body + recs[1:2] if rng.random() < 0.5 else recs[:2] + body
    lines = []
    tagn = 0
    for n, t in order:
        tagn += 1
        if t == 6:
            lines.append(f"{RN.to_text(n)} 300 IN SOA ns.example. h.example. 1 2 3 4 5")
        else:
            lines.append(f"{RN.to_text(n)} 300 IN {dns.rdatatype.to_text(t)} {rd_for(t, tagn).to_text()}")
        ref.add(fold(n), t)
    text = "\n".join(lines) + "\n"
    # the origin is either given to the loader or learned from a $ORIGIN directive while loading
    learned = rng.random() < 0.3
    if learned:
        text = "$ORIGIN " + RN.to_text(ORIGIN) + "\n" + text
        tag += ":origin-from-directive"
        ctx.count("mon.origin_learned_while_loading")
    steps.append(("load", text))
    try:
        z = dns.zone.from_text(text, origin=None if learned else origin, relativize=relativize, zone_factory=dns.btreezone.Zone)
    except Exception as e:
        ctx.violation(f"initial-load-raised:{tag}:" + core.exc_sig(e), f"{e!r}", case)
        return
    if not check_version(ctx, z, ref, relativize, case, tag, rng, "load"):
        return
    nested_seen = cname_seen = multi_seen = False
    for step in range(rng.randint(3, 14)):
        n = rng.choice(pool)
        ln = dns.name.Name(n)
        if relativize:
            ln = ln.relativize(origin)
        kind = rng.choice(("add_ns", "add_ns", "del_ns", "del_ns", "add_other", "add_other", "del_other", "del_node", "replace_ns", "cname", "add_below", "rrsig", "reload"))
        if n == ORIGIN and kind in ("del_node", "cname", "del_ns", "rrsig"):
            kind = "add_other"
        tagn += 1
        try:
            if kind == "reload":
                # a replacement transaction (what an AXFR does): nothing of the old version, its delegation index included, survives
                ctx.count("mon.replacement_transactions")
                ref = RefZone()
                with z.writer(True) as txn:
                    new = [(ORIGIN, 6), (ORIGIN, 2)] + [(rng.choice(pool), rng.choice((1, 2, 2, 16, 28))) for _ in range(rng.randint(1, 6))]
                    rng.shuffle(new)
                    for nn, tt in new:
                        tagn += 1
                        lnn = dns.name.Name(nn).relativize(origin) if relativize else dns.name.Name(nn)
                        if tt == 6:
                            txn.add(lnn, 300, dns.rdata.from_text("IN", "SOA", "ns.example. h.example. 1 2 3 4 5"))
                        else:
                            txn.add(lnn, 300, rd_for(tt, tagn))
                        ref.add(fold(nn), tt)
            with z.writer() as txn:
                # one to three operations in the same transaction, often at the same name or right next to it: the flags are
                # re-derived when a node is copied for writing, which happens once per name and transaction
                for opi in range(1 if kind == "reload" else rng.choice((1, 1, 2, 3))):
                    if opi > 0:
                        if rng.random() < 0.5:
                            n = rng.choice(pool)
                            ln = dns.name.Name(n).relativize(origin) if relativize else dns.name.Name(n)
                        kind = rng.choice(("add_ns", "del_ns", "del_ns", "add_other", "del_other", "del_node", "replace_ns", "cname", "add_below", "rrsig"))
                        if n == ORIGIN and kind in ("del_node", "cname", "del_ns", "rrsig"):
                            kind = "add_other"
                        tagn += 1
                        multi_seen = True
                    if kind == "reload":
                        pass
                    elif kind == "rrsig":
                        # RRSIG(CNAME) counts as a CNAME for the other-data rule and evicts an NS at a cut; RRSIG(A) is ordinary data
                        cov = rng.choice((5, 5, 1))
                        if cov == 5 and 2 in ref.c.get(fold(n), ()):
                            cname_seen = True
                        txn.add(ln, 300, rd_for((46, cov), tagn))
                        ref.add(fold(n), (46, cov))
                    elif kind == "add_ns":
                        txn.add(ln, 300, rd_for(2, tagn))
                        ref.add(fold(n), 2)
                    elif kind == "replace_ns":
                        txn.replace(ln, 300, rd_for(2, tagn))
                        ref.add(fold(n), 2)
                    elif kind == "del_ns":
                        txn.delete(ln, "NS")
                        ref.delete(fold(n), 2)
                    elif kind == "add_other":
                        t = rng.choice((1, 16, 15, 28, 43 if n != ORIGIN else 1))
                        txn.add(ln, 300, rd_for(t, tagn))
                        ref.add(fold(n), t)
                    elif kind == "del_other":
                        t = rng.choice((1, 16, 15, 28))
                        txn.delete(ln, t)
                        ref.delete(fold(n), t)
                    elif kind == "del_node":
                        txn.delete(ln)
                        ref.delete(fold(n))
                    elif kind == "cname":
                        if 2 in ref.c.get(fold(n), ()):
                            cname_seen = True
                        txn.add(ln, 300, rd_for(5, tagn))
                        ref.add(fold(n), 5)
                    elif kind == "add_below":
                        below = (rng.choice(LABELS),) + n
                        if RN.fits(below):
                            bl = dns.name.Name(below)
                            if relativize:
                                bl = bl.relativize(origin)
                            t = rng.choice((1, 2, 16))
                            txn.add(bl, 300, rd_for(t, tagn))
                            ref.add(fold(below), t)
                            if below not in pool:
                                pool.append(below)
        except Exception as e:
            ctx.violation(f"transaction-raised:{tag}:{kind}:" + core.exc_sig(e), f"{e!r}", case)
            return
        steps.append((kind, RN.to_text(n)))
        ns = ref_nsown(ref)
        if any(any(len(a) > len(b) and RN.is_subdomain(a, b) for b in ns if b != a) for a in ns):
            nested_seen = True
        if not check_version(ctx, z, ref, relativize, case, tag, rng, kind):
            return
    if multi_seen:
        ctx.count("mon.histories_with_multi_operation_transactions")
    if nested_seen:
        ctx.count("mon.histories_with_nested_cuts")
    if cname_seen:
        ctx.count("mon.histories_with_cname_at_cut")


def run(spec, ctx):
    rng = ctx.rng
    for i in range(spec["n"]):
        if ctx.expired(1.0):
            break
        history(ctx, rng)
    if ctx.shard == 0:
        ctx.sample({"origin": "example.", "labels": [l.decode("latin1") for l in LABELS], "step_kinds": ["add_ns", "del_ns", "replace_ns", "add_other", "del_other", "del_node", "cname", "add_below"]})


def replay(case, ctx):
    ctx.notes.append("histories are regenerated from the seed")
