"""C20 — B-tree zone flags, delegation index and bounds are a function of zone content."""

import dns.btreezone
import dns.exception
import dns.name
import dns.rdata
import dns.rdataclass
import dns.rdataset
import dns.rdatatype
import dns.zone

from vlib import core
from vlib.gen import names as GN
from vlib.ref import names as RN

PROP = "C20"
LEVEL = "exploration"
RULE = (
    "histories on dns.btreezone.Zone (relativized and absolute): initial load from master-file text in random record order, then "
    "committed transactions that add / delete / replace NS and other record types at, above and below delegation points (nested "
    "cuts, glue, empty non-terminals, CNAME inserted at a cut, node deletions). After every commit the node flags, the delegation "
    "index and the iteration order of the committed version are compared with a reference computed from the content alone (B6), and "
    "bounds() is compared with a brute-force reference for query names drawn from zone names, their successor/predecessor neighbours, "
    "names beneath cuts and empty non-terminals, and names before the first / after the last. Distinct by (relativize, step kind, "
    "number of cuts, nested cuts present, query class)."
)
RULE += " " + (
    "Also: zones of class CH/HS, owners in the non-native spelling and in varying letter case, transactions abandoned through an exception, versions held by open readers re-checked against the reference of their own content, delegation-heavy zones (380-640 cuts). Whole signature sets deleted at cuts."
)
ASSUMPTIONS = [
    "reference B6 (DESIGN.md Appendix B6): flags, delegation index and bounds as functions of content",
    "flags and the delegation index are read from the committed version object (version.nodes[*].flags, version.delegations)",
]
REQUIRED = ["mon.histories_with_mixed_letter_case", "mon.big_delegation_index_drills", "mon.abandoned_transactions", "mon.held_reader_version_rechecked", "mon.histories_in_another_class", "mon.histories_with_other_name_spelling", "mon.histories_with_multi_operation_transactions", "mon.replacement_transactions", "mon.flags_from_content", "mon.delegation_index", "mon.iteration_order", "mon.bounds_query", "mon.histories_with_nested_cuts", "mon.histories_with_cname_at_cut"]
BUDGET = {"quick": 40.0, "thorough": 420.0}

ORIGIN = (b"example", b"")
LABELS = [b"a", b"b", b"c", b"d", b"ns", b"z", b"*", b"_x"]


def shards(tier, seed):
    mult = 1 if tier == "quick" else 24
    return [{"n": 250 * mult} for _ in range(16)]


def fold(n):
    return tuple(RN.fold(l) for l in n)


class RefZone:
    """content: folded abs name -> set of rdtypes (with a payload id per type so replacements are visible)"""

    def __init__(self):
        self.c = {}

    def add(self, name, rdtype):
        # CNAME/other-data rule of nodes
        # (dns.node: CNAME and RRSIG(CNAME) are "CNAME-like"; NSEC, NSEC3, KEY and their RRSIGs are neutral; everything else,
        # RRSIG(A) included, is regular.  Adding one kind evicts the other.)  RRSIG sets are keyed (46, covered type).
        s = self.c.setdefault(name, set())
        neutral = (47, 50, 25, (46, 47), (46, 50), (46, 25))
        cname_like = (5, (46, 5))
        if rdtype in cname_like:
            for t in [t for t in s if t not in neutral and t not in cname_like]:
                s.discard(t)
        elif rdtype not in neutral:
            for t in cname_like:
                s.discard(t)
        s.add(rdtype)

    def delete(self, name, rdtype=None):
        if name not in self.c:
            return
        if rdtype is None:
            del self.c[name]
        else:
            self.c[name].discard(rdtype)
            if not self.c[name]:
                del self.c[name]

    def derived(self):
        okey = fold(ORIGIN)
        nsown = {n for n, ts in self.c.items() if 2 in ts and n != okey}

        def proper_ancestors(n):
            return (n[i:] for i in range(1, len(n)))

        D = {n for n in nsown if not any(a in nsown for a in proper_ancestors(n))}
        flags = {}
        for n in self.c:
            f = 0
            if n == okey:
                f |= 1
            if n in D:
                f |= 2
            if any(a in D for a in proper_ancestors(n)):
                f |= 4
            flags[n] = f
        return flags, D

    def copy(self):
        r = RefZone()
        r.c = {k: set(v) for k, v in self.c.items()}
        return r

    def bounds(self, q, memo=None):
        if memo is None:
            memo = {}
        if "derived" not in memo:
            memo["derived"] = self.derived()
            memo["visible"] = sorted((n for n in self.c if not memo["derived"][0][n] & 4), key=RN.key)
        flags, D = memo["derived"]
        visible = memo["visible"]
        kq = RN.key(q)
        le = [n for n in visible if RN.key(n) <= kq]
        gt = [n for n in visible if RN.key(n) > kq]
        left = le[-1] if le else None
        right = gt[0] if gt else None
        is_deleg = any(RN.is_subdomain(q, d) for d in D)
        ce = fold(ORIGIN)
        for i in range(len(q)):
            suf = q[i:]
            if len(suf) < len(ORIGIN):
                break
            if any(RN.is_subdomain(n, suf) for n in visible):
                ce = suf
                break
        return left, right, ce, left == q, is_deleg


def rd_for(rdtype, tag, rdclass="IN"):
    if isinstance(rdtype, tuple):
        return dns.rdata.from_text(rdclass, "RRSIG", f"{dns.rdatatype.to_text(rdtype[1])} 8 2 300 20300101000000 20200101000000 {tag % 60000} example. q83v")
    t = dns.rdatatype.to_text(rdtype)
    text = {"A": f"10.0.0.{tag % 250 + 1}", "NS": f"ns{tag % 5}.elsewhere.", "TXT": f'"t{tag}"', "CNAME": f"target{tag % 3}.elsewhere.", "MX": f"{tag % 50} mx.elsewhere.",
            "DS": f"{tag % 60000} 8 2 " + "ab" * 32, "AAAA": f"2001:db8::{tag % 999 + 1:x}"}[t]
    return dns.rdata.from_text(rdclass, t, text)


class _Held:
    """an already open reader used in place of a new one"""

    def __init__(self, txn):
        self.txn = txn

    def __enter__(self):
        return self.txn

    def __exit__(self, *a):
        return False


def check_version(ctx, z, ref, relativize, case, tag, rng, step_kind, held=None):
    origin = dns.name.Name(ORIGIN)
    memo = {}
    with (_Held(held) if held is not None else z.reader()) as txn:
        v = txn.version
        flags, D = ref.derived()
        # content agreement (harness sanity + CNAME rule)
        got_content = {}
        got_flags = {}
        for name, node in v.nodes.items():
            k = fold(name.derelativize(origin).labels)
            got_content[k] = {int(r.rdtype) if int(r.rdtype) != 46 else (46, int(r.covers)) for r in node.rdatasets}
            got_flags[k] = int(node.flags)
        if got_content != {k: set(s) for k, s in ref.c.items()}:
            ctx.violation(f"zone-content-differs-from-reference:{tag}", f"after {step_kind}", case)
            return False
        ctx.count("mon.flags_from_content")
        if got_flags != flags:
            bad = [(RN.to_text(k), got_flags[k], flags[k]) for k in flags if got_flags.get(k) != flags[k]]
            kinds = set()
            for k, g, w in bad:
                d = g ^ w
                for bit, nm in ((1, "ORIGIN"), (2, "DELEGATION"), (4, "GLUE")):
                    if d & bit:
                        kinds.add(f"{nm}-{'missing' if w & bit else 'stale'}")
            nested = any(any(len(a) > len(b) and RN.is_subdomain(a, b) for b in ref_nsown(ref) if b != a) for a in ref_nsown(ref))
            ctx.violation(f"node-flags-differ-from-content:{'+'.join(sorted(kinds))}:{'nested-cuts' if nested else 'flat'}", f"after {step_kind}: (name, library flags, reference flags) {bad[:5]}", case)
            return False
        ctx.count("mon.delegation_index")
        got_D = {fold(n.derelativize(origin).labels) for n in v.delegations}
        if got_D != D:
            nested = any(any(len(a) > len(b) and RN.is_subdomain(a, b) for b in ref_nsown(ref) if b != a) for a in ref_nsown(ref))
            ctx.violation(f"delegation-index-differs-from-content:{'stale-entry' if got_D - D else ''}{'missing-entry' if D - got_D else ''}:{'nested-cuts' if nested else 'flat'}",
                          f"after {step_kind}: library {[RN.to_text(x) for x in got_D]} reference {[RN.to_text(x) for x in D]}", case)
            return False
        ctx.count("mon.iteration_order")
        it = [fold(n.derelativize(origin).labels) for n in txn.iterate_names()]
        if it != sorted(it, key=RN.key) or set(it) != set(ref.c):
            ctx.violation(f"iteration-not-canonical-order:{tag}", "", case)
            return False
        # bounds queries
        names = sorted(ref.c, key=RN.key)
        qs = set()
        for n in names:
            qs.add(n)
            qs.add((b"\x00",) + n)
            qs.add((b"zz",) + n)
            qs.add((b"q", b"ent") + n)
            if len(n) > len(ORIGIN):
                l0 = n[0]
                qs.add((l0 + b"\x00",) + n[1:])
                qs.add((l0[:-1] or b"0",) + n[1:])
                qs.add(n[1:])
        qs.add(fold(ORIGIN))
        qs.add((b"\xff" * 5,) + fold(ORIGIN))
        qs = [q for q in qs if RN.fits(q) and RN.is_subdomain(q, fold(ORIGIN))]
        rng.shuffle(qs)
        for q in qs[:25]:
            ctx.count("mon.bounds_query")
            qn = dns.name.Name(tuple(l.upper() if rng.random() < 0.15 else l for l in q))
            if relativize and rng.random() < 0.5:
                qn = qn.relativize(origin)
            try:
                b = v.bounds(qn)
            except Exception as e:
                ctx.violation(f"bounds-raised:{tag}:" + core.exc_sig(e), f"q={RN.to_text(q)}: {e!r}", case)
                return False
            left, right, ce, is_eq, is_deleg = ref.bounds(q, memo)
            gl = fold(b.left.derelativize(origin).labels)
            gr = fold(b.right.derelativize(origin).labels) if b.right is not None else None
            gce = fold(b.closest_encloser.derelativize(origin).labels)
            qclass = "in-zone" if q in ref.c else "beneath-cut" if is_deleg else "absent"
            ctx.seen((relativize, step_kind, min(len(D), 3), qclass))
            if gl != left:
                ctx.violation(f"bounds-left-wrong:{qclass}:{'is-glue' if flags.get(gl, 0) & 4 else 'not-nearest'}", f"q={RN.to_text(q)} library {RN.to_text(gl)} reference {RN.to_text(left)}", case)
                return False
            if gr != right:
                ctx.violation(f"bounds-right-wrong:{qclass}", f"q={RN.to_text(q)} library {RN.to_text(gr) if gr else None} reference {RN.to_text(right) if right else None}", case)
                return False
            if gce != ce:
                at_origin = ce == fold(ORIGIN)
                ctx.violation(f"bounds-closest-encloser-wrong:{qclass}:{'encloser-is-origin' if at_origin else 'other'}:{'relativized' if relativize else 'absolute'}",
                              f"q={RN.to_text(q)} library {RN.to_text(gce)} reference {RN.to_text(ce)}", case)
                return False
            if b.is_equal != is_eq:
                ctx.violation(f"bounds-is_equal-wrong:{qclass}", f"q={RN.to_text(q)}", case)
                return False
            if b.is_delegation != is_deleg:
                ctx.violation(f"bounds-is_delegation-wrong:{qclass}", f"q={RN.to_text(q)} library {b.is_delegation} reference {is_deleg}", case)
                return False
    return True


class _Abandon(Exception):
    pass


def ref_nsown(ref):
    okey = fold(ORIGIN)
    return {n for n, ts in ref.c.items() if 2 in ts and n != okey}


def history(ctx, rng):
    ctx.count("evaluations")
    relativize = rng.random() < 0.5
    origin = dns.name.Name(ORIGIN)
    tag = "rel" if relativize else "abs"
    # the zone's class: the derived state is defined the same way whatever it is (types that exist in class IN only are replaced)
    rdclass = rng.choice(("IN", "IN", "IN", "CH", "HS"))
    if rdclass != "IN":
        tag += ":class-" + rdclass
        ctx.count("mon.histories_in_another_class")
    in_only = {1: 16, 28: 15}

    def ty(t):
        return in_only.get(t, t) if rdclass != "IN" else t

    def spell(n):
        """the owner as the caller writes it: mostly the zone's own form, sometimes the other one (absolute in a relativized zone,
        relative in an absolute one); the library accepts both"""
        # (letter case is not part of a name's identity: the same owner may be written Sub, sub or SUB at different times)
        nm = dns.name.Name(tuple(l.upper() if mixed_case and rng.random() < 0.3 else l for l in n))
        native = nm.relativize(origin) if relativize else nm
        if rng.random() < 0.25:
            other = nm if relativize else nm.relativize(origin)
            if other != native or other.is_absolute() != native.is_absolute():
                spellings[0] += 1
                return other
        return native

    spellings = [0]
    mixed_case = rng.random() < 0.4
    if mixed_case:
        ctx.count("mon.histories_with_mixed_letter_case")
    # name pool with structure: cuts, things beneath, siblings, ENTs
    pool = [ORIGIN]
    for _ in range(rng.randint(3, 7)):
        depth = rng.choice((1, 1, 2, 2, 3))
        n = tuple(rng.choice(LABELS) for _ in range(depth)) + ORIGIN
        pool.append(n)
        if rng.random() < 0.5:
            pool.append((rng.choice(LABELS),) + n)
    pool = list(dict.fromkeys(pool))
    ref = RefZone()
    steps = []
    case = {"kind": "hist", "relativize": relativize, "steps": steps}
    # initial load from text in random record order
    recs = [(ORIGIN, 6), (ORIGIN, 2)]
    for _ in range(rng.randint(2, 10)):
        recs.append((rng.choice(pool), ty(rng.choice((1, 1, 2, 2, 2, 16, 15, 28, 43)))))
    recs = [r for r in recs if not (r[1] == 43 and r[0] == ORIGIN)]
    body = recs[2:]
    rng.shuffle(body)
    order = recs[:1] + body + recs[1:2] if rng.random() < 0.5 else recs[:2] + body
    lines = []
    tagn = 0
    for n, t in order:
        tagn += 1
        if t == 6:
            lines.append(f"{RN.to_text(n)} 300 {rdclass} SOA ns.example. h.example. 1 2 3 4 5")
        else:
            lines.append(f"{RN.to_text(tuple(l.upper() if mixed_case and rng.random() < 0.3 else l for l in n))} 300 {rdclass} {dns.rdatatype.to_text(t)} {rd_for(t, tagn, rdclass).to_text()}")
        ref.add(fold(n), t)
    text = "\n".join(lines) + "\n"
    # the origin is either given to the loader or learned from a $ORIGIN directive while loading
    learned = rng.random() < 0.3
    if learned:
        text = "$ORIGIN " + RN.to_text(ORIGIN) + "\n" + text
        tag += ":origin-from-directive"
        ctx.count("mon.origin_learned_while_loading")
    steps.append(("load", text))
    try:
        z = dns.zone.from_text(text, origin=None if learned else origin, rdclass=dns.rdataclass.from_text(rdclass), relativize=relativize, zone_factory=dns.btreezone.Zone)
    except Exception as e:
        ctx.violation(f"initial-load-raised:{tag}:" + core.exc_sig(e), f"{e!r}", case)
        return
    if not check_version(ctx, z, ref, relativize, case, tag, rng, "load"):
        return
    nested_seen = cname_seen = multi_seen = False
    held = []  # (open reader, reference content at the time, step it was opened after)
    for step in range(rng.randint(3, 14)):
        n = rng.choice(pool)
        ln = spell(n)
        abandon = rng.random() < 0.15  # the transaction is left through an exception: nothing of it may show
        ref_before = ref.copy() if abandon else None
        if rng.random() < 0.2 and len(held) < 3:
            held.append((z.reader(), ref.copy(), step))
        kind = rng.choice(("add_ns", "add_ns", "del_ns", "del_ns", "add_other", "add_other", "del_other", "del_node", "replace_ns", "cname", "add_below", "rrsig", "del_rrsig", "reload"))
        if n == ORIGIN and kind in ("del_node", "cname", "del_ns", "rrsig", "del_rrsig"):
            kind = "add_other"
        tagn += 1
        if kind == "reload":
            abandon = False
        try:
            if kind == "reload":
                # a replacement transaction (what an AXFR does): nothing of the old version, its delegation index included, survives
                ctx.count("mon.replacement_transactions")
                ref = RefZone()
                with z.writer(True) as txn:
                    new = [(ORIGIN, 6), (ORIGIN, 2)] + [(rng.choice(pool), ty(rng.choice((1, 2, 2, 16, 28)))) for _ in range(rng.randint(1, 6))]
                    rng.shuffle(new)
                    for nn, tt in new:
                        tagn += 1
                        lnn = spell(nn)
                        if tt == 6:
                            txn.add(lnn, 300, dns.rdata.from_text(rdclass, "SOA", "ns.example. h.example. 1 2 3 4 5"))
                        else:
                            txn.add(lnn, 300, rd_for(tt, tagn, rdclass))
                        ref.add(fold(nn), tt)
            with z.writer() as txn:
                # one to three operations in the same transaction, often at the same name or right next to it: the flags are
                # re-derived when a node is copied for writing, which happens once per name and transaction
                for opi in range(1 if kind == "reload" else rng.choice((1, 1, 2, 3))):
                    if opi > 0:
                        if rng.random() < 0.5:
                            n = rng.choice(pool)
                        ln = spell(n)
                        kind = rng.choice(("add_ns", "del_ns", "del_ns", "add_other", "del_other", "del_node", "replace_ns", "cname", "add_below", "rrsig", "del_rrsig"))
                        if n == ORIGIN and kind in ("del_node", "cname", "del_ns", "rrsig", "del_rrsig"):
                            kind = "add_other"
                        tagn += 1
                        multi_seen = True
                    if kind == "reload":
                        pass
                    elif kind == "rrsig":
                        # RRSIG(CNAME) counts as a CNAME for the other-data rule and evicts an NS at a cut; RRSIG(A) is ordinary data
                        cov = rng.choice((5, 5, 1))
                        if cov == 5 and 2 in ref.c.get(fold(n), ()):
                            cname_seen = True
                        txn.add(ln, 300, rd_for((46, cov), tagn, rdclass))
                        ref.add(fold(n), (46, cov))
                    elif kind == "del_rrsig":
                        # a whole signature set goes (re-signing): at a cut this says nothing about the NS set
                        cov = rng.choice((1, 1, 5, 43, 2))
                        if rng.random() < 0.6:
                            txn.add(ln, 300, rd_for((46, cov if cov != 43 else 1), tagn, rdclass))
                            ref.add(fold(n), (46, cov if cov != 43 else 1))
                        txn.delete(ln, dns.rdatatype.RRSIG, dns.rdatatype.RdataType.make(cov))
                        ref.delete(fold(n), (46, cov))
                    elif kind == "add_ns":
                        txn.add(ln, 300, rd_for(2, tagn, rdclass))
                        ref.add(fold(n), 2)
                    elif kind == "replace_ns":
                        txn.replace(ln, 300, rd_for(2, tagn, rdclass))
                        ref.add(fold(n), 2)
                    elif kind == "del_ns":
                        txn.delete(ln, "NS")
                        ref.delete(fold(n), 2)
                    elif kind == "add_other":
                        t = ty(rng.choice((1, 16, 15, 28, 43 if n != ORIGIN else 1)))
                        txn.add(ln, 300, rd_for(t, tagn, rdclass))
                        ref.add(fold(n), t)
                    elif kind == "del_other":
                        t = ty(rng.choice((1, 16, 15, 28)))
                        txn.delete(ln, t)
                        ref.delete(fold(n), t)
                    elif kind == "del_node":
                        txn.delete(ln)
                        ref.delete(fold(n))
                    elif kind == "cname":
                        if 2 in ref.c.get(fold(n), ()):
                            cname_seen = True
                        txn.add(ln, 300, rd_for(5, tagn, rdclass))
                        ref.add(fold(n), 5)
                    elif kind == "add_below":
                        below = (rng.choice(LABELS),) + n
                        if RN.fits(below):
                            bl = spell(below)
                            t = ty(rng.choice((1, 2, 16)))
                            txn.add(bl, 300, rd_for(t, tagn, rdclass))
                            ref.add(fold(below), t)
                            if below not in pool:
                                pool.append(below)
                if abandon:
                    raise _Abandon()
        except _Abandon:
            ref = ref_before
            kind = "abandoned:" + kind
            ctx.count("mon.abandoned_transactions")
        except Exception as e:
            ctx.violation(f"transaction-raised:{tag}:{kind}:" + core.exc_sig(e), f"{e!r}", case)
            return
        steps.append((kind, RN.to_text(n)))
        ns = ref_nsown(ref)
        if any(any(len(a) > len(b) and RN.is_subdomain(a, b) for b in ns if b != a) for a in ns):
            nested_seen = True
        if not check_version(ctx, z, ref, relativize, case, tag, rng, kind.split(":")[0]):
            return
        # versions still held by a reader are what they were when the reader was opened
        for r, rref, opened in held:
            ctx.count("mon.held_reader_version_rechecked")
            if not check_version(ctx, z, rref, relativize, case, tag + ":version-held-by-a-reader", rng, "held", held=r):
                return
    for r, _, _ in held:
        r.rollback()
    if spellings[0]:
        ctx.count("mon.histories_with_other_name_spelling")
    if multi_seen:
        ctx.count("mon.histories_with_multi_operation_transactions")
    if nested_seen:
        ctx.count("mon.histories_with_nested_cuts")
    if cname_seen:
        ctx.count("mon.histories_with_cname_at_cut")


def big_index_drill(ctx, rng):
    """a delegation-heavy zone (several hundred cuts, so that the delegation index is a tree of several nodes, some of them
    full): cuts are added by transactions that commit or are abandoned while readers hold earlier versions; every version --
    the live one and the held ones -- is compared with the reference of ITS content"""
    ctx.count("evaluations")
    ctx.count("mon.big_delegation_index_drills")
    relativize = rng.random() < 0.5
    origin = dns.name.Name(ORIGIN)
    tag = ("rel" if relativize else "abs") + ":delegation-heavy"
    ncuts = rng.choice((380, 380, 400, 520, 640))
    in_order = rng.random() < 0.6
    case = {"kind": "big-index", "relativize": relativize, "cuts": ncuts, "sorted_load": in_order, "steps": []}
    ref = RefZone()
    names = [(b"c%04d" % (i * 4),) + ORIGIN for i in range(ncuts)]
    if not in_order:
        rng.shuffle(names)

    def lib(n):
        nm = dns.name.Name(n)
        return nm.relativize(origin) if relativize else nm

    try:
        z = dns.btreezone.Zone(origin, relativize=relativize)
        batches = rng.choice((1, 1, 3))
        with z.writer() as txn:
            txn.add(lib(ORIGIN), 300, dns.rdata.from_text("IN", "SOA", "ns.example. h.example. 1 2 3 4 5"))
            txn.add(lib(ORIGIN), 300, rd_for(2, 1))
            ref.add(fold(ORIGIN), 6)
            ref.add(fold(ORIGIN), 2)
        per = (len(names) + batches - 1) // batches
        for b in range(batches):
            with z.writer() as txn:
                for n in names[b * per:(b + 1) * per]:
                    txn.add(lib(n), 300, rd_for(2, 7))
                    ref.add(fold(n), 2)
        if not check_version(ctx, z, ref, relativize, case, tag, rng, "load"):
            return
        held = []
        tagn = 10
        for step in range(rng.randint(3, 6)):
            if rng.random() < 0.6 and len(held) < 2:
                held.append((z.reader(), ref.copy()))
            abandon = rng.random() < 0.5
            before = ref.copy()
            kind = rng.choice(("add-cuts", "add-cuts", "remove-cuts", "mixed"))
            case["steps"].append((kind, abandon))
            try:
                with z.writer() as txn:
                    for _ in range(rng.randint(1, 6)):
                        tagn += 1
                        if kind == "add-cuts" or (kind == "mixed" and rng.random() < 0.5):
                            n = (b"c%04d" % rng.randrange(ncuts * 4 + 4),) + ORIGIN
                            if rng.random() < 0.2:
                                n = (b"c%04dx" % (4 * rng.randrange(ncuts)),) + ORIGIN
                            txn.add(lib(n), 300, rd_for(2, tagn))
                            ref.add(fold(n), 2)
                        else:
                            cur = [k for k in ref.c if k != fold(ORIGIN)]
                            if cur:
                                n = rng.choice(cur)
                                txn.delete(lib(n), "NS")
                                ref.delete(n, 2)
                    if abandon:
                        raise _Abandon()
            except _Abandon:
                ref = before
                ctx.count("mon.abandoned_transactions")
            ctx.seen(("big-index", relativize, in_order, kind, abandon, len(held)))
            if not check_version(ctx, z, ref, relativize, case, tag + (":after-abandoned-transaction" if abandon else ""), rng, "big"):
                return
            for r, rref in held:
                ctx.count("mon.held_reader_version_rechecked")
                if not check_version(ctx, z, rref, relativize, case, tag + ":version-held-by-a-reader", rng, "held", held=r):
                    return
        for r, _ in held:
            r.rollback()
    except Exception as e:
        ctx.violation(f"transaction-raised:{tag}:" + core.exc_sig(e), f"{e!r}", case)


def run(spec, ctx):
    rng = ctx.rng
    for i in range(spec["n"]):
        if ctx.expired(1.0):
            break
        history(ctx, rng)
        if i % 80 == 0:
            big_index_drill(ctx, rng)
    if ctx.shard == 0:
        ctx.sample({"origin": "example.", "labels": [l.decode("latin1") for l in LABELS], "step_kinds": ["add_ns", "del_ns", "replace_ns", "add_other", "del_other", "del_node", "cname", "add_below"]})


def replay(case, ctx):
    ctx.notes.append("histories are regenerated from the seed")
