#!/venv/bin/python
"""Development aid: run the repository's own suite (guard off) and compare with /root/.vp/BASELINE.json stable_pass."""
import json, subprocess, sys, xml.etree.ElementTree as ET
out = "/tmp/baseline_junit.xml"
subprocess.run(["/venv/bin/python", "-m", "pytest", "-ra", "-q", "-p", "no:cacheprovider", "--timeout=900", "--continue-on-collection-errors", f"--junitxml={out}"], cwd="/repo", stdout=subprocess.DEVNULL, stderr=subprocess.DEVNULL)
base = json.load(open("/root/.vp/BASELINE.json"))
passed = set()
for tc in ET.parse(out).getroot().iter("testcase"):
    if not any(ch.tag in ("failure", "error", "skipped") for ch in tc):
        passed.add(f"{tc.get('classname')}::{tc.get('name')}")
missing = [t for t in base["stable_pass"] if t not in passed]
print("stable_pass:", len(base["stable_pass"]), "now passing:", len(passed), "regressions:", len(missing))
for m in missing[:30]:
    print("  REGRESSION", m)
sys.exit(1 if missing else 0)
