NOT_BUILT = {}
CHECKS = {
 "C01": dict(level="exploration",
   technique="runtime monitoring: differential round-trip oracle vs independent RFC 1035 codec + Name-construction invariant hook + parser step-budget spy",
   text="Generated and hostile names are pushed through the real text/wire codecs and every producing operation while (a) an independent reference codec predicts the exact result or that the operation must raise, (b) a hook on Name.__init__/__setstate__ re-checks the 63/255/empty-label limits for every Name object created in the process, (c) a parser spy bounds decode steps. Held = no disagreement on the executions explored (counts in evidence); exhaustive only for the one-/two-octet label sub-spaces named there.",
   note="Trusts vlib/ref/names.py and CPython; case-variant suffix sharing by the compressor is treated as conforming."),
 "C06": dict(level="exploration",
   technique="runtime monitoring: differential oracle vs independent RFC 4034 §6.1 order over adversarial name pairs/triples; algebraic-law monitors (antisymmetry, transitivity, hash coherence); successor/predecessor sweep exhaustive in the last octet",
   text="Every comparison API (fullcompare, six rich comparisons, sorted, ==/hash, is_subdomain/is_superdomain, split/parent, relativize/derelativize, NameDict deepest match, successor/predecessor) is run on adversarial names concentrated on the case-fold boundary and compared with an independent reference order and with the algebraic laws evaluated on the library's own answers. Held = no disagreement on the pairs/triples explored; the last-octet dimension of successor/predecessor is enumerated completely.",
   note="Trusts vlib/ref/names.py. Successor minimality is not demanded; a wrap to the origin is accepted only when no RFC 4471 move can produce a greater name."),
}
