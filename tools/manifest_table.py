NOT_BUILT = {}
CHECKS = {
 "C01": dict(level="exploration",
   technique="runtime monitoring: differential round-trip oracle vs independent RFC 1035 codec + Name-construction invariant hook + parser step-budget spy",
   text="Generated and hostile names are pushed through the real text/wire codecs and every producing operation while (a) an independent reference codec predicts the exact result or that the operation must raise, (b) a hook on Name.__init__/__setstate__ re-checks the 63/255/empty-label limits for every Name object created in the process, (c) a parser spy bounds decode steps. Held = no disagreement on the executions explored (counts in evidence); exhaustive only for the one-/two-octet label sub-spaces named there.",
   note="Trusts vlib/ref/names.py and CPython; case-variant suffix sharing by the compressor is treated as conforming."),
}
