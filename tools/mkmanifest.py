#!/venv/bin/python
"""Regenerates MANIFEST.json from the table below (development aid)."""
import json, os, sys
ROOT = os.path.dirname(os.path.dirname(os.path.abspath(__file__)))
sys.path.insert(0, ROOT)
from tools.manifest_table import CHECKS, NOT_BUILT, ADDENDA

props = [json.loads(l)["id"] for l in open(os.path.join(ROOT, "properties.jsonl"))]
checks = []
for pid in props:
    if pid not in CHECKS:
        continue
    c = CHECKS[pid]
    checks.append({
        "property_id": pid,
        "quick_cmd": f"/venv/bin/python -B vrun.py {pid} quick",
        "thorough_cmd": f"/venv/bin/python -B vrun.py {pid} thorough",
        "evidence_file": f"/verif/evidence/{pid}.json",
        "replay_cmd_template": "/venv/bin/python -B vrun.py --replay {path}",
        "engine": "vrun",
        "level_claimed": {"category": c["level"], "text": c["text"] + (" " + ADDENDA[pid] if pid in ADDENDA else ""), "design_ref": f"DESIGN.md §3 {pid}"},
        "level_note": c["note"],
        "technique": c["technique"],
    })
na = [{"property_id": p, "reason": NOT_BUILT.get(p, "check not built yet in this session; see DESIGN.md §3 for the planned monitor")} for p in props if p not in CHECKS]
m = {
    "version": 1,
    "setup_cmd": "/venv/bin/python -B vrun.py --selftest",
    "hooks": {
        "guard": "DNSPYTHON_VERIF",
        "enable": "no source hooks exist: every monitor is applied from the harness (module-global rebinding, class-attribute wrappers, sys.monitoring); checks import /repo's working tree in fresh interpreters with PYTHONPATH=/repo",
        "baseline_off_cmd": "cd /repo && /venv/bin/python -m pytest -ra -q -p no:cacheprovider --timeout=900 --continue-on-collection-errors",
        "source_commits": [],
        "add_only": True,
    },
    "engines": [{"name": "vrun", "path": "/verif/vrun.py", "serves_properties": sorted(CHECKS), "kind_free_text": "runtime monitoring: generated/hostile/fault-injected workloads executed on the real code under monitors (reference models, invariant hooks, deterministic thread scheduler), sharded over 16 subprocesses"}],
    "checks": checks,
    "not_applicable": na,
    "notes": "Verdicts are three-valued: exit 0 held / exit 1 VIOLATION / exit 2 INCONCLUSIVE (a deciding monitor never ran or a watchdog fired). Known findings: known_findings.json (matched by mechanism signature).",
}
json.dump(m, open(os.path.join(ROOT, "MANIFEST.json"), "w"), indent=1)
print("checks:", len(checks), "not_applicable:", len(na))
