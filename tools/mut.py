#!/venv/bin/python
"""Mutation experiment helper (development aid, not a registered check).
   tools/mut.py <Cxx[,Cyy]> <relative file> <old> <new> [tier]
Copies /repo to a scratch dir under /tmp, replaces exactly one occurrence of <old> by <new>, runs the
check(s) against the copy (VERIF_REPO), prints the verdict lines, removes the copy."""
import os, shutil, subprocess, sys, tempfile

props, rel, old, new = sys.argv[1].split(","), sys.argv[2], sys.argv[3], sys.argv[4]
tier = sys.argv[5] if len(sys.argv) > 5 else "quick"
d = tempfile.mkdtemp(prefix="mut-", dir="/tmp")
try:
    shutil.copytree("/repo/dns", d + "/repo/dns")
    p = os.path.join(d, "repo", rel)
    s = open(p).read()
    old = old.encode().decode("unicode_escape"); new = new.encode().decode("unicode_escape")
    if s.count(old) != 1:
        print(f"pattern occurs {s.count(old)} times"); sys.exit(3)
    open(p, "w").write(s.replace(old, new))
    env = dict(os.environ, VERIF_REPO=d + "/repo", VERIF_OUT=d + "/out")
    for prop in props:
        r = subprocess.run(["/venv/bin/python", "-B", "/verif/vrun.py", prop, tier], env=env, capture_output=True, text=True)
        lines = [l for l in r.stdout.splitlines() if l.startswith(("VIOLATION", "HELD", "INCONCLUSIVE", "KNOWN", "   sig="))]
        print(f"{prop}: rc={r.returncode}"); print("\n".join(lines[:12]))
        if r.returncode not in (0, 1): print(r.stdout[-1500:], r.stderr[-1500:])
finally:
    shutil.rmtree(d, ignore_errors=True)
