#!/venv/bin/python
"""Confirm the seeded property-breaking changes under /verif/seeded against the registered checks.

For each seeded/<Cxx-k>/patch.diff:  git -C /repo apply  ->  run the quick check(s)  ->  git -C /repo checkout -- .
and write seeded/<Cxx-k>/meta.json (property, what the change needs in order to manifest, what was run, verdicts and the
mechanism signatures reported).  Nothing is ever committed to /repo.  usage: tools/seedconfirm.py [id ...] [--tier quick|thorough]
"""
import json, os, subprocess, sys, tempfile, shutil

ROOT = "/verif"
NEEDS = {
    "C01-1": "a relative name text whose last label ends in an escaped dot (`a\\.`), parsed with an origin",
    "C01-2": "compression on, a multi-label name straddling message offset 0x3FFF, and a later name reusing one of its suffixes",
    "C02-1": "a LOC record decoded from wire whose coordinate in milliseconds of arc does not survive float truncation (about 5% of values)",
    "C02-2": "an RRSIG/SIG whose signer name has upper-case letters, encoded non-canonically",
    "C03-1": "a record set dropped by truncation (TooBig rollback) followed by a compressible name equal to or below its owner, e.g. the TSIG key name",
    "C03-2": "a dynamic update for a zone whose class is not IN (CH/HS) carrying a delete or prerequisite form, rendered then parsed",
    "C04-1": "a TSIG record from wire whose error field is 4096..65535: accepted, but to_text then raises a bare ValueError",
    "C04-2": "continue_on_error=True and a defect inside the question section",
    "C05-1": "a TXT-like string that is valid UTF-8 containing a C1 control character, printed with RdataStyle(txt_is_utf8=True)",
    "C05-2": "an rdata name field holding the relative single-label name `@`, printed relativized",
    "C06-1": "successor() on a name whose last incrementable octet is upper-case `Z`, at maximal length or with prefix_ok=False",
    "C06-2": "names containing the octet `[`, compared with letters or `{`",
    "C07-1": "an RRSIG/SIG rdataset that already declares a covered type but is currently empty, then add() of another covered type",
    "C07-2": "symmetric difference (^, ^=) of rdatasets with a lower right-hand TTL, a foreign-type operand, or a singleton type",
    "C08-1": "same change as C03-1, found independently for the truncation property",
    "C08-2": "padding requested, TSIG key name compressible against the message, and an unpadded size that is already block-aligned",
    "C09-1": "ZoneStyle(default_ttl=0) with rdatasets whose TTL is 0",
    "C09-2": "an out-of-zone record followed directly by blank-owner continuation lines",
    "C10-1": "versioned/btree zone, add() (not replace) onto an rdataset committed earlier, with a TTL greater than the existing one",
    "C10-2": "plain/versioned zone, a transaction whose every change is a delete that empties its node",
    "C11-1": "reader(id=) of an already pruned version lying less than len(retained) below the oldest retained id",
    "C11-2": "two readers open on different versions while something triggers pruning",
    "C12-1": "the active writer ends between a blocked writer's lock release and its enqueue (lost wake-up)",
    "C12-2": "three writers: a newcomer runs its admission block between the wake-up of the only waiter and that waiter re-acquiring the lock",
    "C13-1": "an IXFR request answered AXFR-style with the leading SOA alone in the first message",
    "C13-2": "an IXFR request answered AXFR-style when the local zone holds records the server no longer has",
    "C14-1": "a TSIG key name with upper-case letters",
    "C14-2": "keyring given as a single Key or a callable, and the TSIG owner name on the wire altered to another parseable name",
    "C15-1": "a relativized zone whose origin has upper-case letters (ZONEMD digest / to_digestable with origin)",
    "C15-2": "the canonically last NSEC owner is a delegation that also holds glue (a type other than NS/DS)",
    "C16-1": "async resolver only: every server failed once and the lifetime runs out during the back-off sleep",
    "C16-2": "resolver cache on and a query in a class other than IN answered NXDOMAIN",
    "C17-1": "LRU cache: a get of an expired entry followed by enough puts to reach max_size",
    "C17-2": "simple cache: the periodic cleaning pass falls due in a put while another thread mutates the cache",
    "C18-1": "a datagram/stream message from the right peer with the right id and question but a different opcode",
    "C18-2": "a short TCP write immediately followed by a would-block",
    "C19-1": "in_order tree, frozen and cloned, insert into the clone next to a non-full left sibling leaf",
    "C19-2": "overwriting a key that is exactly the median of a full non-root node on its path",
    "C20-1": "a cut committed by an earlier transaction, then a later transaction adds an NS above it",
    "C20-2": "bounds() of an absent name outside every cut whose nearest predecessor is a delegation point",
}
ALSO = {"C03-1": ["C08"]}

args = [a for a in sys.argv[1:] if not a.startswith("--")]
tier = sys.argv[sys.argv.index("--tier") + 1] if "--tier" in sys.argv else "quick"
ids = args or sorted(os.listdir(os.path.join(ROOT, "seeded")))
assert subprocess.run(["git", "-C", "/repo", "status", "--porcelain"], capture_output=True, text=True).stdout.strip() == "", "/repo is not clean"
head = subprocess.run(["git", "-C", "/repo", "rev-parse", "--short", "HEAD"], capture_output=True, text=True).stdout.strip()
for sid in ids:
    d = os.path.join(ROOT, "seeded", sid)
    if not os.path.isfile(os.path.join(d, "patch.diff")):
        continue
    prop = sid.split("-")[0]
    out = tempfile.mkdtemp(prefix="seedconfirm-", dir="/tmp")
    runs = []
    try:
        subprocess.run(["git", "-C", "/repo", "apply", os.path.join(d, "patch.diff")], check=True)
        for c in [prop] + ALSO.get(sid, []):
            env = dict(os.environ, VERIF_OUT=out, PYTHONHASHSEED="0")
            r = subprocess.run(["/venv/bin/python", "-B", os.path.join(ROOT, "vrun.py"), c, tier], env=env, capture_output=True, text=True, cwd=ROOT)
            sigs = [l.strip()[4:] for l in r.stdout.splitlines() if l.startswith("   sig=")]
            runs.append({"command": f"git -C /repo apply seeded/{sid}/patch.diff; ./vrun.py {c} {tier}; git -C /repo checkout -- .", "exit": r.returncode,
                         "verdict": {0: "held (change not detected)", 1: "VIOLATION", 2: "inconclusive"}.get(r.returncode, "error"), "signatures": sigs[:12]})
    finally:
        subprocess.run(["git", "-C", "/repo", "checkout", "--", "."], check=True)
        shutil.rmtree(out, ignore_errors=True)
    ver = {}
    try:
        ver = json.load(open(os.path.join(d, "verify.json")))
    except Exception:
        pass
    meta = {
        "id": sid, "breaks_property": prop, "repo_head": head, "needs_to_manifest": NEEDS.get(sid, "see notes.md"),
        "origin": "written by a fresh sub-agent that saw only the property text and its own scratch worktree of /repo (nothing from /verif)",
        "confirmed_in_scratch_worktree": {
            "tool": "tools/seedverify.py", "patch_applies_to_head": ver.get("applies"), "demo_exit_unmodified": ver.get("demo_clean_rc"), "demo_exit_with_change": ver.get("demo_patched_rc"),
            "repository_suite_regressions_vs_BASELINE_stable_pass": ver.get("suite_regressions"), "repository_suite_passed": ver.get("suite_passed")},
        "checks_run_against_it": runs,
        "caught": any(r["exit"] == 1 for r in runs),
    }
    json.dump(meta, open(os.path.join(d, "meta.json"), "w"), indent=1)
    print(sid, "caught" if meta["caught"] else "MISSED", [r["signatures"][:2] for r in runs])
assert subprocess.run(["git", "-C", "/repo", "status", "--porcelain"], capture_output=True, text=True).stdout.strip() == "", "/repo left dirty"
