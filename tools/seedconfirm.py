#!/venv/bin/python
"""Confirm the seeded property-breaking changes under /verif/seeded against the registered checks.

For each seeded/<Cxx-k>/patch.diff:  git -C /repo apply  ->  run the quick check(s)  ->  git -C /repo checkout -- .
and write seeded/<Cxx-k>/meta.json (property, what the change needs in order to manifest, what was run, verdicts and the
mechanism signatures reported).  Nothing is ever committed to /repo.  usage: tools/seedconfirm.py [id ...] [--tier quick|thorough]
"""
import json, os, subprocess, sys, tempfile, shutil

ROOT = "/verif"
NEEDS = json.load(open(os.path.join(ROOT, "seeded", "NEEDS.json")))
ALSO = {"C03-1": ["C08"], "C03-5": ["C08"], "C13-6": ["C10"], "C18-15": ["C13"], "C01-15": ["C06"]}

args = [a for a in sys.argv[1:] if not a.startswith("--")]
tier = sys.argv[sys.argv.index("--tier") + 1] if "--tier" in sys.argv else "quick"
ids = args or sorted(x for x in os.listdir(os.path.join(ROOT, "seeded")) if os.path.isdir(os.path.join(ROOT, "seeded", x)))
assert subprocess.run(["git", "-C", "/repo", "status", "--porcelain"], capture_output=True, text=True).stdout.strip() == "", "/repo is not clean"
head = subprocess.run(["git", "-C", "/repo", "rev-parse", "--short", "HEAD"], capture_output=True, text=True).stdout.strip()
for sid in ids:
    d = os.path.join(ROOT, "seeded", sid)
    if not os.path.isfile(os.path.join(d, "patch.diff")):
        continue
    prop = sid.split("-")[0]
    out = tempfile.mkdtemp(prefix="seedconfirm-", dir="/tmp")
    runs = []
    try:
        subprocess.run(["git", "-C", "/repo", "apply", os.path.join(d, "patch.diff")], check=True)
        for c in [prop] + ALSO.get(sid, []):
            env = dict(os.environ, VERIF_OUT=out, PYTHONHASHSEED="0")
            r = subprocess.run(["/venv/bin/python", "-B", os.path.join(ROOT, "vrun.py"), c, tier], env=env, capture_output=True, text=True, cwd=ROOT)
            sigs = [l.strip()[4:] for l in r.stdout.splitlines() if l.startswith("   sig=")]
            runs.append({"command": f"git -C /repo apply seeded/{sid}/patch.diff; ./vrun.py {c} {tier}; git -C /repo checkout -- .", "exit": r.returncode,
                         "verdict": {0: "held (change not detected)", 1: "VIOLATION", 2: "inconclusive"}.get(r.returncode, "error"), "signatures": sigs[:12]})
    finally:
        subprocess.run(["git", "-C", "/repo", "checkout", "--", "."], check=True)
        shutil.rmtree(out, ignore_errors=True)
    ver = {}
    try:
        ver = json.load(open(os.path.join(d, "verify.json")))
    except Exception:
        pass
    meta = {
        "id": sid, "breaks_property": prop, "repo_head": head, "needs_to_manifest": NEEDS.get(sid, "see notes.md"),
        "origin": "written by a fresh sub-agent that saw only the property text and its own scratch worktree of /repo (nothing from /verif)",
        "confirmed_in_scratch_worktree": {
            "tool": "tools/seedverify.py", "patch_applies_to_head": ver.get("applies"), "demo_exit_unmodified": ver.get("demo_clean_rc"), "demo_exit_with_change": ver.get("demo_patched_rc"),
            "repository_suite_regressions_vs_BASELINE_stable_pass": ver.get("suite_regressions"), "repository_suite_passed": ver.get("suite_passed")},
        "checks_run_against_it": runs,
        "caught": any(r["exit"] == 1 for r in runs),
    }
    json.dump(meta, open(os.path.join(d, "meta.json"), "w"), indent=1)
    print(sid, "caught" if meta["caught"] else "MISSED", [r["signatures"][:2] for r in runs])
assert subprocess.run(["git", "-C", "/repo", "status", "--porcelain"], capture_output=True, text=True).stdout.strip() == "", "/repo left dirty"
