#!/venv/bin/python
"""Development aid: file confirmed seeded changes under /verif/seeded.

usage: tools/seedfile.py <deliverables-root> <needs.json> <verify-prefix>
  <deliverables-root>/Cxx/k/{patch.diff,demo.py,notes.md} for k = 1, 2, ...;  needs.json maps "Cxx/k" to the one-line trigger;
  <verify-prefix>-Cxx-k.json is the output of tools/seedverify.py for that change.  Only changes whose confirmation is complete
  (applies, demo 0/1, no suite regression) are filed, as seeded/Cxx-(max existing index + 1...).  Prints the new ids.
"""
import json, os, shutil, sys

root, needs_file, vprefix = sys.argv[1:4]
needs = json.load(open(needs_file))
N = json.load(open("/verif/seeded/NEEDS.json"))
filed = []
for p in range(1, 21):
    P = f"C{p:02d}"
    mx = max(int(d.split("-")[1]) for d in os.listdir("/verif/seeded") if d.startswith(P + "-"))
    ks = sorted(k for k in os.listdir(os.path.join(root, P)) if k.isdigit()) if os.path.isdir(os.path.join(root, P)) else []
    for k in ks:
        src = os.path.join(root, P, k)
        vf = f"{vprefix}-{P}-{k}.json"
        if not os.path.isfile(os.path.join(src, "patch.diff")) or not os.path.isfile(vf):
            print("skip (incomplete)", P, k)
            continue
        ver = json.loads(open(vf).read().strip().splitlines()[-1])
        ok = ver.get("applies") and ver.get("demo_clean_rc") == 0 and ver.get("demo_patched_rc") not in (0, None) and not ver.get("suite_regressions") and ver.get("suite_passed")
        if not ok or f"{P}/{k}" not in needs:
            print("skip (not confirmed or no trigger text)", P, k, ver)
            continue
        mx += 1
        sid = f"{P}-{mx}"
        d = f"/verif/seeded/{sid}"
        os.makedirs(d)
        for f in ("patch.diff", "demo.py", "notes.md"):
            shutil.copy(os.path.join(src, f), d)
        ver["dir"] = f"seeded/{sid}"
        json.dump(ver, open(d + "/verify.json", "w"), indent=1)
        N[sid] = needs[f"{P}/{k}"]
        filed.append(sid)
json.dump(N, open("/verif/seeded/NEEDS.json", "w"), indent=1, ensure_ascii=False)
print(len(filed), " ".join(filed))
