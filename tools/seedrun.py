#!/venv/bin/python
"""Development aid: run check(s) against a seeded change without touching /repo.
   tools/seedrun.py <seed dir with patch.diff> <Cxx[,Cyy]> [tier] [seed]
Copies /repo/dns to a scratch dir under /tmp, applies patch.diff there, runs the check(s) with VERIF_REPO pointing
at the copy, prints the verdict lines, removes the copy.  (The recorded confirmation runs in seeded/*/meta.json used
`git -C /repo apply` / `git -C /repo checkout -- .` instead; this is the parallel-safe variant used while triaging.)"""
import os, shutil, subprocess, sys, tempfile

sd, props = os.path.abspath(sys.argv[1]), sys.argv[2].split(",")
tier = sys.argv[3] if len(sys.argv) > 3 else "quick"
seed = sys.argv[4] if len(sys.argv) > 4 else "0"
d = tempfile.mkdtemp(prefix="sr-", dir="/tmp")
try:
    shutil.copytree("/repo/dns", d + "/repo/dns")
    a = subprocess.run(["git", "apply", "--unsafe-paths", "--directory=" + d + "/repo", os.path.join(sd, "patch.diff")], cwd="/", capture_output=True, text=True)
    if a.returncode != 0:
        a = subprocess.run(["patch", "-p1", "-d", d + "/repo", "-i", os.path.join(sd, "patch.diff")], capture_output=True, text=True)
    if a.returncode != 0:
        print("patch does not apply:", a.stdout[-300:], a.stderr[-300:]); sys.exit(3)
    env = dict(os.environ, VERIF_REPO=d + "/repo", VERIF_OUT=d + "/out", VERIF_SEED=seed)
    for prop in props:
        r = subprocess.run(["/venv/bin/python", "-B", "/verif/vrun.py", prop, tier], env=env, capture_output=True, text=True)
        lines = [l[:260] for l in r.stdout.splitlines() if l.startswith(("VIOLATION", "HELD", "INCONCLUSIVE", "KNOWN", "   sig="))]
        print(f"{prop} {tier} seed={seed}: rc={r.returncode}"); print("\n".join(lines[:14]))
        if r.returncode not in (0, 1): print(r.stdout[-1500:], r.stderr[-1500:])
finally:
    shutil.rmtree(d, ignore_errors=True)
