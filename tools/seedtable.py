#!/venv/bin/python
"""Development aid: regenerates the table at the end of DESIGN.md §6.6 from seeded/*/meta.json."""
import json, os, re

ROOT = os.path.dirname(os.path.dirname(os.path.abspath(__file__)))
rows = []
ids = sorted((d for d in os.listdir(os.path.join(ROOT, "seeded")) if os.path.isdir(os.path.join(ROOT, "seeded", d))), key=lambda x: (x.split("-")[0], int(x.split("-")[1])))
missed = []
for sid in ids:
    mp = os.path.join(ROOT, "seeded", sid, "meta.json")
    if not os.path.isfile(mp):
        rows.append(f"| {sid} | (not yet run) | |")
        continue
    m = json.load(open(mp))
    det = []
    for r in m["checks_run_against_it"]:
        chk = re.search(r"vrun\.py (C\d\d)", r["command"]).group(1)
        if r["exit"] == 1 and r["signatures"]:
            first = re.sub(r" \(x\d+\)$", "", r["signatures"][0])
            more = len(r["signatures"]) - 1
            det.append(f"{chk}: `{first}`" + (f" (+{more} more)" if more else ""))
        elif r["exit"] != 1 and len(m["checks_run_against_it"]) > 1:
            det.append(f"{chk}: not detected (not this check's subject)")
    if not m.get("caught"):
        missed.append(sid)
    rows.append(f"| {sid} | {m['needs_to_manifest']} | {'; '.join(det) if det else '**not detected**'} |")
p = os.path.join(ROOT, "DESIGN.md")
s = open(p).read()
head = "| Change | Needs, in order to manifest | Detected by (first signature) |\n|---|---|---|\n"
i = s.index(head)
j = i + len(head)
# the table runs to the first line that does not start with "|"
rest = s[j:].split("\n")
k = 0
while k < len(rest) and rest[k].startswith("|"):
    k += 1
s = s[:j] + "\n".join(rows) + "\n" + "\n".join(rest[k:])
open(p, "w").write(s)
print(len(rows), "rows;", "missed:", missed)
