#!/venv/bin/python
"""Development aid: confirm one seeded change (patch.diff + demo.py) in a scratch worktree of /repo.

usage: tools/seedverify.py <dir-with-patch.diff-and-demo.py> [--no-suite]
Checks: patch applies to /repo HEAD; demo exits 0 without and non-zero with the patch; the repository suite
has no regression against /root/.vp/BASELINE.json stable_pass with the patch.  Prints one JSON line.  The worktree is removed.
"""
import json, os, shutil, subprocess, sys, tempfile, xml.etree.ElementTree as ET

d = os.path.abspath(sys.argv[1])
suite = "--no-suite" not in sys.argv
wt = tempfile.mkdtemp(prefix="sv-", dir="/tmp")
os.rmdir(wt)
res = {"dir": d}
try:
    subprocess.run(["git", "-C", "/repo", "worktree", "add", "--detach", "-q", wt, "HEAD"], check=True)
    env = dict(os.environ, PYTHONPATH=wt, PYTHONDONTWRITEBYTECODE="1")
    demo = os.path.join(d, "demo.py")
    r0 = subprocess.run(["/venv/bin/python", "-B", demo], cwd=wt, env=env, capture_output=True, text=True, timeout=900)
    res["demo_clean_rc"] = r0.returncode
    a = subprocess.run(["git", "-C", wt, "apply", os.path.join(d, "patch.diff")], capture_output=True, text=True)
    res["applies"] = a.returncode == 0
    if a.returncode == 0:
        r1 = subprocess.run(["/venv/bin/python", "-B", demo], cwd=wt, env=env, capture_output=True, text=True, timeout=900)
        res["demo_patched_rc"] = r1.returncode
        res["demo_patched_tail"] = (r1.stdout + r1.stderr)[-400:]
        if suite:
            out = wt + "-junit.xml"
            subprocess.run(["/venv/bin/python", "-m", "pytest", "-q", "-p", "no:cacheprovider", "--timeout=900", "--continue-on-collection-errors", f"--junitxml={out}"],
                           cwd=wt, env=env, stdout=subprocess.DEVNULL, stderr=subprocess.DEVNULL)
            base = json.load(open("/root/.vp/BASELINE.json"))
            passed = set()
            for tc in ET.parse(out).getroot().iter("testcase"):
                if not any(ch.tag in ("failure", "error", "skipped") for ch in tc):
                    passed.add(f"{tc.get('classname')}::{tc.get('name')}")
            os.unlink(out)
            missing = [t for t in base["stable_pass"] if t not in passed]
            res["suite_regressions"] = missing[:10]
            res["suite_passed"] = len(passed)
    else:
        res["apply_err"] = a.stderr[-300:]
finally:
    subprocess.run(["git", "-C", "/repo", "worktree", "remove", "--force", wt], capture_output=True)
    shutil.rmtree(wt, ignore_errors=True)
res["ok"] = bool(res.get("applies") and res.get("demo_clean_rc") == 0 and res.get("demo_patched_rc") not in (0, None) and (not suite or res.get("suite_regressions") == []))
print(json.dumps(res))
