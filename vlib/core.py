"""Harness core: shard runner, contexts, verdicts, evidence, replay, known-findings classifier.

Every check module (checks/cNN.py) exposes
    PROP, LEVEL, RULE, ASSUMPTIONS, REQUIRED (counter names that must be > 0)
    shards(tier, seed) -> list[dict]         JSON-able shard specs
    run(spec, ctx)                           executes a shard, reporting into ctx
    replay(case, ctx)                        re-executes one recorded case
The parent process starts one subprocess per shard (never multiprocessing.Pool), merges the JSON
results, classifies violations against known_findings.json, writes evidence/<id>.json and decides the
three-valued verdict.
"""

from __future__ import annotations

import collections
import hashlib
import importlib
import json
import os
import random
import re
import signal
import subprocess
import sys
import time
import traceback

ROOT = os.path.dirname(os.path.dirname(os.path.abspath(__file__)))
REPO = os.environ.get("VERIF_REPO", "/repo")
PY = os.environ.get("VERIF_PY", "/venv/bin/python")
NCPU = int(os.environ.get("VERIF_JOBS", "16"))
OUT = os.environ.get("VERIF_OUT", ROOT)  # evidence/replay destination (mutation experiments redirect it)

EXIT_HELD, EXIT_VIOLATED, EXIT_INCONCLUSIVE = 0, 1, 2


class CaseTimeout(BaseException):
    """Raised by the per-case wall backstop (SIGALRM).  BaseException so that library code which
    catches Exception cannot swallow it."""


class StepBudgetExceeded(BaseException):
    """Raised by logical step budgets (parser spy etc.)."""


def jsonable(o, depth=0):
    if depth > 8:
        return repr(o)[:200]
    if o is None or isinstance(o, (bool, int, float, str)):
        return o
    if isinstance(o, (bytes, bytearray)):
        return {"hex": bytes(o).hex()}
    if isinstance(o, dict):
        return {str(k): jsonable(v, depth + 1) for k, v in o.items()}
    if isinstance(o, (list, tuple, set, frozenset)):
        return [jsonable(v, depth + 1) for v in o]
    return repr(o)[:400]


def unhex(o):
    """inverse of jsonable for bytes embedded as {"hex": ...}"""
    if isinstance(o, dict):
        if set(o.keys()) == {"hex"}:
            return bytes.fromhex(o["hex"])
        return {k: unhex(v) for k, v in o.items()}
    if isinstance(o, list):
        return [unhex(v) for v in o]
    return o


def exc_sig(e: BaseException) -> str:
    """mechanism signature of an exception: class + innermost frame inside dns.* (function name)."""
    tb = e.__traceback__
    inner = None
    while tb is not None:
        fn = tb.tb_frame.f_code.co_filename
        if "/dns/" in fn and "/verif/" not in fn:
            mod = fn.split("/dns/", 1)[1].rsplit(".py", 1)[0].replace("/", ".")
            inner = f"dns.{mod}.{tb.tb_frame.f_code.co_name}"
        tb = tb.tb_next
    return f"{type(e).__name__}@{inner or '?'}"


def raised_in_library(e: BaseException) -> bool:
    """True when the innermost frame of the exception's traceback is library code (dns/*), i.e. the
    library failed under valid API usage, as opposed to a bug in the harness itself."""
    tb = e.__traceback__
    last = None
    while tb is not None:
        last = tb.tb_frame.f_code.co_filename
        tb = tb.tb_next
    return last is not None and "/dns/" in last and "/verif/" not in last


class Ctx:
    MAX_VIOL = 40
    MAX_SAMPLES = 6

    def __init__(self, prop, tier, seed, shard=0, spec=None, budget_s=60.0):
        self.prop = prop
        self.tier = tier
        self.seed = seed
        self.shard = shard
        self.spec = spec or {}
        self.rng = random.Random(seed * 1000003 + shard * 7919 + 17)
        self.counters = collections.Counter()
        self.distinct = set()
        self.samples = []
        self.tables = collections.defaultdict(collections.Counter)
        self.violations = []
        self.vsigs = collections.Counter()
        self.notes = []
        self.t0 = time.monotonic()
        self.budget_s = budget_s
        self.c0 = time.process_time()
        self.inconclusive = []

    # -- budgets
    def expired(self, frac=1.0):
        # the budget is CPU time of this shard process (so that a loaded machine explores as much as an idle one), with a wall
        # clock ceiling well below the runner's kill time
        cpu = time.process_time() - self.c0
        wall = time.monotonic() - self.t0
        return cpu > self.budget_s * frac or wall > 2.2 * self.budget_s * frac

    def time_left(self):
        return self.budget_s - (time.monotonic() - self.t0)

    # -- reporting
    def count(self, name, n=1):
        self.counters[name] += n

    def seen(self, fp):
        if not isinstance(fp, str):
            fp = repr(fp)
        if len(fp) > 48:
            fp = hashlib.blake2b(fp.encode("utf-8", "replace"), digest_size=8).hexdigest()
        self.distinct.add(fp)

    def table(self, name, key, n=1):
        t = self.tables[name]
        if len(t) < 4000 or key in t:
            t[str(key)] += n

    def sample(self, obj, force=False):
        if force or len(self.samples) < self.MAX_SAMPLES:
            self.samples.append(jsonable(obj))

    def violation(self, sig, detail, case=None):
        """sig: mechanism signature (stable across seeds); detail: human text; case: replayable."""
        self.vsigs[sig] += 1
        if self.vsigs[sig] <= 3 and len(self.violations) < self.MAX_VIOL:
            self.violations.append(
                {"sig": sig, "detail": str(detail)[:2000], "case": jsonable(case), "shard": self.shard}
            )

    def mark_inconclusive(self, why):
        self.inconclusive.append(str(why)[:500])

    def result(self):
        return {
            "counters": dict(self.counters),
            "distinct": sorted(self.distinct),
            "samples": self.samples,
            "tables": {k: dict(v) for k, v in self.tables.items()},
            "violations": self.violations,
            "vsigs": dict(self.vsigs),
            "inconclusive": self.inconclusive,
            "notes": self.notes,
            "wall_s": time.monotonic() - self.t0,
        }


class case_guard:
    """Per-case wall backstop.  SIGALRM -> CaseTimeout in the main thread.  The limit is generous
    (seconds where a case normally costs well under a millisecond); whether a firing counts as a
    violation (termination is part of C01/C04) or as inconclusive is the caller's decision."""

    def __init__(self, seconds=20.0):
        self.seconds = seconds

    def _handler(self, signum, frame):
        raise CaseTimeout()

    def __enter__(self):
        self.old = signal.signal(signal.SIGALRM, self._handler)
        signal.setitimer(signal.ITIMER_REAL, self.seconds)
        return self

    def __exit__(self, *a):
        signal.setitimer(signal.ITIMER_REAL, 0)
        signal.signal(signal.SIGALRM, self.old)
        return False


# ------------------------------------------------------------------------------------------------
# child side


def _limit_memory():
    try:
        import resource

        lim = 3 * 1024**3
        resource.setrlimit(resource.RLIMIT_AS, (lim, lim))
    except Exception:
        pass


def load_check(prop):
    sys.path.insert(0, ROOT) if ROOT not in sys.path else None
    return importlib.import_module(f"checks.{prop.lower()}")


def child_main(prop, specfile, outfile):
    import faulthandler

    faulthandler.enable()
    _limit_memory()
    with open(specfile) as f:
        job = json.load(f)
    faulthandler.dump_traceback_later(job["kill_s"] - 5 if job["kill_s"] > 10 else job["kill_s"], exit=False)
    mod = load_check(prop)
    ctx = Ctx(prop, job["tier"], job["seed"], job["shard"], job["spec"], job["budget_s"])
    err = None
    try:
        mod.run(job["spec"], ctx)
    except BaseException as e:  # harness error inside a shard: inconclusive, never a verdict
        err = "".join(traceback.format_exception(type(e), e, e.__traceback__))[-4000:]
    res = ctx.result()
    res["harness_error"] = err
    tmp = outfile + ".tmp"
    with open(tmp, "w") as f:
        json.dump(res, f)
    os.replace(tmp, outfile)


# ------------------------------------------------------------------------------------------------
# parent side


def child_env():
    env = dict(os.environ)
    pp = [REPO, ROOT]
    if env.get("PYTHONPATH"):
        pp.append(env["PYTHONPATH"])
    env["PYTHONPATH"] = os.pathsep.join(pp)
    env["PYTHONDONTWRITEBYTECODE"] = "1"
    env["PYTHONHASHSEED"] = "0"
    env.setdefault("DNSPYTHON_VERIF", "1")
    return env


def load_known():
    p = os.path.join(ROOT, "known_findings.json")
    if not os.path.exists(p):
        return {"findings": [], "fixed": []}
    with open(p) as f:
        return json.load(f)


def classify(prop, vsigs):
    """split observed violation signatures into (known {id: (finding, count)}, unknown {sig: count})"""
    kf = [f for f in load_known().get("findings", []) if f["property"] == prop]
    known, unknown = {}, {}
    for sig, n in vsigs.items():
        hit = None
        for f in kf:
            if re.fullmatch(f["sig"], sig):
                hit = f
                break
        if hit is None:
            unknown[sig] = n
        else:
            fid = hit["id"]
            known[fid] = (hit, known.get(fid, (hit, 0))[1] + n)
    return known, unknown


def run_check(prop, tier, seed, only_shard=None):
    t0 = time.monotonic()
    mod = load_check(prop)
    specs = mod.shards(tier, seed)
    budget = getattr(mod, "BUDGET", {"quick": 45.0, "thorough": 480.0})[tier]
    kill_s = budget * 3 + 60
    tmpdir = os.path.join(OUT, ".work", f"{prop}-{tier}-{os.getpid()}")
    os.makedirs(tmpdir, exist_ok=True)
    jobs = []
    for i, spec in enumerate(specs):
        if only_shard is not None and i != only_shard:
            continue
        sf = os.path.join(tmpdir, f"spec{i}.json")
        of = os.path.join(tmpdir, f"out{i}.json")
        with open(sf, "w") as f:
            json.dump({"tier": tier, "seed": seed, "shard": i, "spec": spec, "budget_s": budget, "kill_s": kill_s}, f)
        jobs.append((i, sf, of))
    env = child_env()
    running, results, pending = {}, {}, list(jobs)
    logs = {}
    while pending or running:
        while pending and len(running) < NCPU:
            i, sf, of = pending.pop(0)
            lf = open(os.path.join(tmpdir, f"log{i}.txt"), "w")
            p = subprocess.Popen(
                [PY, "-B", os.path.join(ROOT, "vrun.py"), "--shard", prop, sf, of],
                env=env, stdout=lf, stderr=subprocess.STDOUT, cwd=ROOT,
            )
            running[i] = (p, of, time.monotonic(), lf)
        time.sleep(0.05)
        for i in list(running):
            p, of, ts, lf = running[i]
            rc = p.poll()
            if rc is None:
                if time.monotonic() - ts > kill_s:
                    p.kill()
                    p.wait()
                    lf.close()
                    results[i] = {"dead": f"shard {i} exceeded wall watchdog {kill_s:.0f}s"}
                    del running[i]
                continue
            lf.close()
            del running[i]
            if os.path.exists(of):
                with open(of) as f:
                    results[i] = json.load(f)
            else:
                with open(os.path.join(tmpdir, f"log{i}.txt")) as f:
                    tail = f.read()[-3000:]
                results[i] = {"dead": f"shard {i} died rc={rc}: {tail}"}
    # ---- merge
    counters = collections.Counter()
    distinct = set()
    samples = []
    tables = collections.defaultdict(collections.Counter)
    violations = []
    vsigs = collections.Counter()
    inconclusive = []
    for i in sorted(results):
        r = results[i]
        if "dead" in r:
            inconclusive.append(r["dead"])
            continue
        if r.get("harness_error"):
            inconclusive.append(f"shard {i} harness error: {r['harness_error']}")
        counters.update(r["counters"])
        distinct.update(r["distinct"])
        for s in r["samples"]:
            if len(samples) < 8:
                samples.append(s)
        for k, v in r["tables"].items():
            tables[k].update(v)
        violations.extend(r["violations"])
        vsigs.update(r["vsigs"])
        inconclusive.extend(r["inconclusive"])
    for name in getattr(mod, "REQUIRED", []):
        if counters.get(name, 0) <= 0:
            inconclusive.append(f"deciding monitor '{name}' was never evaluated")
    known, unknown = classify(prop, vsigs)
    wall = time.monotonic() - t0
    # ---- evidence
    evaluations = int(counters.get("evaluations", 0))
    cov = {
        "evaluations": evaluations,
        "distinct_nontrivial": len(distinct),
        "rule": mod.RULE,
        "samples": samples or ["(no sample recorded)"],
        "monitors": {k: v for k, v in sorted(counters.items())},
        "tables": {k: dict(sorted(v.items(), key=lambda kv: -kv[1])[:60]) for k, v in tables.items()},
        "shards": len(jobs),
        "known_findings_seen": {k: n for k, (f, n) in known.items()},
        "unknown_violation_signatures": unknown,
        "inconclusive_reasons": inconclusive[:10],
    }
    extra = getattr(mod, "coverage_extra", None)
    if extra:
        cov.update(extra(tier, counters, tables))
    ev = {
        "property_id": prop,
        "tier": tier,
        "seed": seed,
        "level": mod.LEVEL,
        "coverage": cov,
        "assumptions": list(mod.ASSUMPTIONS),
        "wall_s": round(wall, 2),
        "violations": int(sum(unknown.values())),
    }
    os.makedirs(os.path.join(OUT, "evidence"), exist_ok=True)
    evp = os.path.join(OUT, "evidence", f"{prop}.json")
    with open(evp + ".tmp", "w") as f:
        json.dump(ev, f, indent=1, sort_keys=True)
    os.replace(evp + ".tmp", evp)
    # ---- verdict
    print(f"[{prop} {tier} seed={seed}] evaluations={evaluations} distinct={len(distinct)} wall={wall:.1f}s")
    for k in sorted(counters):
        print(f"   {k} = {counters[k]}")
    for fid, (f, n) in sorted(known.items()):
        print(f"KNOWN-FINDING: property={prop} {f['what']} [{fid}; observed {n}x]")
    rc = EXIT_HELD
    import glob
    for stale in glob.glob(os.path.join(OUT, "replay", f"{prop}-{tier}-{seed}-*.json")):
        os.unlink(stale)  # a replay file always belongs to the run that just finished
    if unknown:
        os.makedirs(os.path.join(OUT, "replay"), exist_ok=True)
        done = set()
        n = 0
        for v in violations:
            if v["sig"] in unknown and v["sig"] not in done:
                done.add(v["sig"])
                rp = os.path.join(OUT, "replay", f"{prop}-{tier}-{seed}-{n}.json")
                n += 1
                with open(rp, "w") as f:
                    json.dump({"property": prop, "tier": tier, "seed": seed, "sig": v["sig"],
                               "detail": v["detail"], "shard": v.get("shard"), "case": v["case"]}, f, indent=1)
                print(f"VIOLATION property={prop} replay={rp}")
                print(f"   sig={v['sig']} (x{unknown[v['sig']]})")
                print(f"   {v['detail'][:600]}")
        for sig in unknown:
            if sig not in done:
                print(f"VIOLATION property={prop} replay=(none recorded) sig={sig}")
        rc = EXIT_VIOLATED
    elif inconclusive:
        for why in inconclusive[:10]:
            print(f"INCONCLUSIVE {prop}: {why[:1500]}")
        rc = EXIT_INCONCLUSIVE
    else:
        print(f"HELD {prop}: no violation in {evaluations} evaluations")
    # cleanup
    try:
        import shutil

        shutil.rmtree(tmpdir, ignore_errors=True)
    except Exception:
        pass
    return rc


def run_replay(path):
    with open(path) as f:
        rec = json.load(f)
    prop = rec["property"]
    sys.path.insert(0, REPO)
    mod = load_check(prop)
    ctx = Ctx(prop, rec.get("tier", "quick"), rec.get("seed", 0), 0, {}, 600.0)
    mod.replay(unhex(rec["case"]), ctx)
    known, unknown = classify(prop, ctx.vsigs)
    for fid, (f, n) in known.items():
        print(f"KNOWN-FINDING: property={prop} {f['what']} [{fid}]")
    if unknown:
        for v in ctx.violations:
            if v["sig"] in unknown:
                print(f"VIOLATION property={prop} replay={path}")
                print(f"   sig={v['sig']}")
                print(f"   {v['detail'][:1500]}")
        return EXIT_VIOLATED
    # history-shaped cases carry no self-contained input: re-execute the shard that produced the case, from its seed.
    # (Deterministic as long as the shard's case counts, not its wall budget, bounded the original run.)
    shard, want_sig = rec.get("shard"), rec.get("sig")
    if shard is not None and want_sig:
        tier, seed = rec.get("tier", "quick"), rec.get("seed", 0)
        specs = mod.shards(tier, seed)
        if 0 <= shard < len(specs):
            budget = getattr(mod, "BUDGET", {"quick": 45.0, "thorough": 480.0})[tier] * 3
            ctx2 = Ctx(prop, tier, seed, shard, specs[shard], budget)
            try:
                mod.run(specs[shard], ctx2)
            except BaseException as e:
                print(f"replay of {path}: re-executing shard {shard} failed in the harness: {e!r}")
                return EXIT_INCONCLUSIVE
            hit = [v for v in ctx2.violations if v["sig"] == want_sig]
            if hit:
                known, unknown = classify(prop, {want_sig: 1})
                if unknown:
                    print(f"VIOLATION property={prop} replay={path}")
                    print(f"   sig={want_sig} (reproduced by re-executing shard {shard} of {tier} seed {seed})")
                    print(f"   {hit[0]['detail'][:1500]}")
                    return EXIT_VIOLATED
                for fid, (f, n) in known.items():
                    print(f"KNOWN-FINDING: property={prop} {f['what']} [{fid}]")
                return EXIT_HELD
            print(f"replay of {path}: shard {shard} re-executed ({sum(ctx2.counters.values())} monitor events), signature not reproduced")
            return EXIT_HELD
    print(f"replay of {path}: no violation reproduced")
    return EXIT_HELD
