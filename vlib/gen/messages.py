"""Generator of well-formed DNS messages as library objects (built through the public API), together
with an implementation-independent description ("expected view") used by the oracles."""

import dns.edns
import dns.flags
import dns.message
import dns.name
import dns.opcode
import dns.rdata
import dns.rdataclass
import dns.rdatatype
import dns.rrset
import dns.update

from vlib.gen import names as GN
from vlib.gen import rdata as GR
from vlib.ref import names as RN

MSG_TYPES = [t for t in GR.ALL_TYPES if t not in ("OPT", "TSIG", "CH-A")]
SMALL_TYPES = ["A", "AAAA", "NS", "CNAME", "MX", "TXT", "SOA", "SRV", "PTR", "DS", "RRSIG", "NSEC", "DNSKEY", "SVCB", "NAPTR", "TKEY", "UNKNOWN"]


def lname(labels):
    return dns.name.Name(labels)


class View:
    """what must be recoverable from the wire: header + per section list of
    (owner labels abs folded, wire class, type, covers, ttl, frozenset of rdata wire (uncompressed, abs))"""

    def __init__(self):
        self.sections = [[], [], [], []]


def gen_rrset(rng, pool, types, origin, relative, big=False, rdclass=1):
    """returns (RRset, vals).  rdclass other than IN: only class-independent types, built in that class"""
    t = rng.choice(types)
    owner = pool.name()
    vals = []
    k = rng.choice((1, 1, 1, 2, 3, 6)) if not big else rng.randint(5, 30)
    first = None
    for _ in range(k):
        v = GR.gen(rng, t, None, relative_ok=False, plain_names=rng.random() < 0.7)
        # point some embedded names into the shared pool so that compression has targets
        if v.names() and rng.random() < 0.6:
            v = repoint(rng, v, pool)
        if first is None:
            first = v
        if (v.rdclass, v.rdtype) != (first.rdclass, first.rdtype):
            continue
        if v.rdclass != 1:
            continue
        if rdclass != 1:
            if not dns.rdata.get_rdata_class(rdclass, v.rdtype).__module__.startswith("dns.rdtypes.ANY."):
                continue
            v = GR.Val(rdclass, v.rdtype, v.tname, v.args, v.parts, v.tags)
        vals.append(v)
    if not vals:
        return None
    rds = [GR.build(v) for v in vals]
    covers = rds[0].covers()
    rds = [r for r in rds if r.covers() == covers]
    oname = lname(owner)
    if relative and origin is not None:
        oname = oname.relativize(lname(origin))
    # signature sets: the covered type is given, or left for add() to take from the first record (both are API usage)
    rrset = dns.rrset.RRset(oname, rds[0].rdclass, rds[0].rdtype, covers) if rng.random() < 0.5 else dns.rrset.RRset(oname, rds[0].rdclass, rds[0].rdtype)
    ttl = rng.choice((0, 1, 300, 3600, 86400, 2**31 - 1, rng.randrange(2**31)))
    for r in rds:
        rrset.add(r, ttl)
    return rrset


def repoint(rng, val, pool):
    memo = {}

    def conv(n):
        if id(n) not in memo:
            memo[id(n)] = GR.NameRef(pool.name(), n.comp, n.down) if rng.random() < 0.7 else n
        return memo[id(n)]

    args = []
    for a in val.args:
        if isinstance(a, GR.NameRef):
            args.append(conv(a))
        elif isinstance(a, tuple) and a and isinstance(a[0], GR.NameRef):
            args.append(tuple(conv(x) for x in a))
        else:
            args.append(a)
    parts = [conv(p) if isinstance(p, GR.NameRef) else p for p in val.parts]
    return GR.Val(val.rdclass, val.rdtype, val.tname, args, parts, val.tags)


def gen_options(rng):
    f = GR.F(rng)
    opts = []
    for _ in range(rng.choice((0, 0, 1, 2, 4))):
        kind, args, ot, w = GR.gen_option(f)
        if ot == 12:
            continue
        opts.append(GR.build_option(kind, args))
    return opts


def gen_message(rng, kind=None, size="small", tsig_ok=False):
    """returns (message, info dict).  kind: query | response | notify | update | other"""
    kind = kind or rng.choice(("query", "response", "response", "response", "notify", "update", "other"))
    pool = GN.Pool(rng, nsuffix=rng.choice((1, 2, 4)), plain=rng.random() < 0.8, case_variants=False)
    origin = None
    relative = False
    info = {"kind": kind}
    types = SMALL_TYPES if rng.random() < 0.6 else MSG_TYPES
    if kind == "update":
        zone = rng.choice(pool.suffixes[:-1])
        zclass = rng.choice((1, 1, 3, 4))  # IN, CH, HS: delete/prerequisite forms carry the zone's class back
        m = dns.update.UpdateMessage(lname(zone), rdclass=zclass, id=rng.randrange(65536))
        info["zone_class"] = zclass
        n_ops = rng.choice((0, 1, 2, 4, 8))
        for _ in range(n_ops):
            op = rng.choice(("add", "add", "replace", "delete_name", "delete_rrset", "delete_rr", "present_name", "present_rrset", "present_rr", "absent_name", "absent_rrset"))
            owner = lname((GN.simple_label(rng),) + zone) if RN.fits((b"xxxxxxxx",) + zone) else lname(zone)
            rr = gen_rrset(rng, pool, types, None, False, rdclass=zclass)
            if rng.random() < 0.15:
                # a record whose RDATA is zero octets long (an empty APL, an unknown type without data): in the class-NONE
                # "delete this RR" form it must still come back as one record, not as an empty set
                rdt = rng.choice((42, 65280, 10)) if zclass == 1 else rng.choice((65280, 10))
                rr = dns.rrset.RRset(lname(pool.name()), zclass, rdt)
                rr.add(dns.rdata.from_wire(zclass, rdt, b"", 0, 0), rng.choice((0, 300)))
            if rr is None:
                continue
            if op == "add":
                m.add(owner, rr.to_rdataset())
            elif op == "replace":
                m.replace(owner, rr.to_rdataset())
            elif op == "delete_name":
                m.delete(owner)
            elif op == "delete_rrset":
                m.delete(owner, rr.rdtype)
            elif op == "delete_rr":
                m.delete(owner, rr.to_rdataset())
            elif op == "present_name":
                m.present(owner)
            elif op == "present_rrset":
                m.present(owner, rr.rdtype)
            elif op == "present_rr":
                m.present(owner, rr.to_rdataset())
            elif op == "absent_name":
                m.absent(owner)
            elif op == "absent_rrset":
                m.absent(owner, rr.rdtype)
        # the data-less forms (delete a name / an RRset, prerequisites) are class-and-type-only records: TTL 0 on the wire
        # whatever TTL attribute the object carries (a set derived from zone data and emptied keeps its old TTL attribute)
        for sec in (m.prerequisite, m.update):
            for rr0 in sec:
                if len(rr0) == 0 and rng.random() < 0.4:
                    rr0.ttl = rng.choice((300, 7200, 2**31 - 1))
        m.origin = None  # render absolute; the zone name stays in the zone section
        info["ops"] = n_ops
    else:
        m = dns.message.Message(id=rng.choice((0, 1, 65535, rng.randrange(65536))))
        opcode = {"query": 0, "response": 0, "notify": 4}.get(kind)
        if opcode is None:
            opcode = rng.choice((0, 1, 2, 3, 4, 6, 7, 8, 9, 10, 11, 12, 13, 14, 15))
        flags = rng.randrange(0x10000) & 0x87B0  # QR AA TC RD RA . AD CD  (Z bit 0x40 kept clear; rcode set below)
        if rng.random() < 0.2:
            flags |= 0x0040
        if kind == "query":
            flags &= ~0x8000
        elif kind == "response":
            flags |= 0x8000
        m.flags = dns.flags.Flag(flags)
        m.set_opcode(opcode)
        if rng.random() < 0.3:
            origin = rng.choice(pool.suffixes[:-1]) if rng.random() < 0.85 else (b"",)  # the root is an origin too
            relative = True
        # question(s)
        nq = rng.choice((1, 1, 1, 0, 2))
        for _ in range(nq):
            qn = lname(pool.name())
            if relative:
                qn = qn.relativize(lname(origin))
            m.find_rrset(m.question, qn, rng.choice((1, 1, 3, 255)), rng.choice((1, 2, 15, 28, 255, 252, 251, 65280)), create=True, force_unique=True)
        nrr = {"small": (0, 1, 2, 4), "medium": (3, 6, 12), "large": (20, 40)}[size]
        for sec in (1, 2, 3):
            if kind == "query" and sec != 3 and rng.random() < 0.9:
                continue
            for _ in range(rng.choice(nrr) if rng.random() < 0.8 else 0):
                rr = gen_rrset(rng, pool, types, origin, relative, big=(size == "large" and rng.random() < 0.2))
                if rr is None:
                    continue
                tgt = m.find_rrset(sec, rr.name, rr.rdclass, rr.rdtype, rr.covers, None, create=True)
                tgt.update(rr)
    # EDNS
    r = rng.random()
    info["edns"] = -1
    if r < 0.55:
        ver = rng.choice((0, 0, 0, 1, 255))
        eflags = rng.choice((0, 0x8000, 0x4000, 0xFFFF, rng.randrange(0x10000), 0x00FF8000, rng.randrange(0x1000000)))
        payload = rng.choice((512, 1232, 4096, 65535, 0, rng.randrange(65536)))
        m.use_edns(ver, eflags, payload, options=gen_options(rng))
        info["edns"] = ver
    # rcode (extended needs EDNS)
    info["rcode"] = 0
    if kind != "query":
        if m.opt is not None and rng.random() < 0.4:
            rc = rng.choice((16, 17, 23, 4095, 0x100, 0xFF0, rng.randrange(16, 4096)))
            m.set_rcode(rc)
        else:
            rc = rng.randrange(16)
            if rng.random() < 0.5:
                m.set_rcode(rc)
            else:
                m.flags = dns.flags.Flag((int(m.flags) & 0xFFF0) | rc)
        info["rcode"] = rc
    elif m.opt is not None:
        # use_edns must have cleared nothing but the version bits; extended rcode bits start at zero for queries
        info["rcode"] = (int(m.flags) & 0xF) | ((m.ednsflags >> 20) & 0xFF0)
    if origin is not None:
        m.origin = lname(origin)
    info["origin"] = RN.to_text(origin) if origin else None
    return m, info


def wire_view(m, origin=None):
    """normalised record view of a library message: per section the list of
    (owner abs folded, wire class, type, covers, ttl, frozenset(rdata canonical-free wire with abs names))"""
    out = []
    o = origin or m.origin
    zclass = int(m.zone[0].rdclass) if isinstance(m, dns.update.UpdateMessage) and m.zone else None
    for i, sec in enumerate(m.sections):
        recs = []
        for rr in sec:
            owner = rr.name if rr.name.is_absolute() else rr.name.derelativize(o)
            wclass = int(rr.deleting) if getattr(rr, "deleting", None) is not None else int(rr.rdclass)
            if i == 0:
                recs.append((tuple(RN.fold(l) for l in owner.labels), wclass, int(rr.rdtype)))
            else:
                # class: (class on the wire, class of the data) -- they differ for the delete/prerequisite forms of updates
                # (the data-less forms built by delete(name)/present(name)/absent(...) spell their class ANY/NONE in the API object
                # where the parser puts the zone's class: the same record, so the view uses the zone's class for both)
                dclass = int(rr.rdclass)
                if zclass is not None and dclass in (254, 255) and len(rr) == 0:
                    dclass = zclass
                recs.append((tuple(RN.fold(l) for l in owner.labels), (wclass, dclass), int(rr.rdtype), int(rr.covers), int(rr.ttl) if len(rr) else 0,
                             frozenset(rd.to_wire(origin=o) for rd in rr)))
        out.append(recs)
    return out


def _names_in(obj, out, depth=0):
    if depth > 5:
        return
    if isinstance(obj, dns.name.Name):
        out.append(obj)
        return
    if isinstance(obj, (bytes, str, int, float, type(None))):
        return
    if isinstance(obj, (tuple, list)):
        for x in obj:
            _names_in(x, out, depth + 1)
        return
    if hasattr(obj, "items") and callable(obj.items) and not isinstance(obj, dns.rrset.RRset):
        try:
            for k, v in obj.items():
                _names_in(v, out, depth + 1)
        except Exception:
            pass
        return
    for cls in type(obj).__mro__:
        sl = getattr(cls, "__slots__", ())
        if isinstance(sl, str):
            sl = (sl,)
        for a in sl:
            try:
                _names_in(getattr(obj, a), out, depth + 1)
            except AttributeError:
                pass
    d = getattr(obj, "__dict__", None)
    if d:
        for v in d.values():
            _names_in(v, out, depth + 1)


def has_case_collision(m, extra=()):
    """True when two names in the message share a suffix up to ASCII case but spell it differently:
    then the compressor may legitimately substitute one spelling for the other (see DESIGN C01)."""
    names = list(extra)
    if m.origin is not None:
        names.append(m.origin)  # a name under the origin only up to case takes the origin's spelling when the parser relativizes it
    for sec in m.sections:
        for rr in sec:
            names.append(rr.name)
            for rd in rr:
                _names_in(rd, names)
    seen = {}
    o = m.origin
    for n in names:
        labels = n.labels if n.is_absolute() or o is None else n.labels + o.labels
        for i in range(len(labels)):
            suf = labels[i:]
            k = tuple(RN.fold(l) for l in suf)
            if seen.setdefault(k, suf) != suf:
                return True
    return False


def fold_view(view):
    out = [view[0]]
    for recs in view[1:]:
        out.append([(o, c, t, cov, ttl, frozenset(RN.fold(x) for x in rds)) for (o, c, t, cov, ttl, rds) in recs])
    return out
