"""Generators for labels and names as tuples of bytes (independent of dns.*)."""

SPECIALS = b'"().;\\@$'
FOLD_NEIGHBOURS = b"@AZ[\\]^_`az{"
WS = b" \t\r\n"


def octet(rng):
    r = rng.random()
    if r < 0.14:
        return rng.choice(SPECIALS)
    if r < 0.24:
        return rng.randrange(0x30, 0x3A)
    if r < 0.30:
        return rng.choice(WS)
    if r < 0.38:
        return rng.randrange(0, 0x20)
    if r < 0.41:
        return 0x7F
    if r < 0.52:
        return rng.randrange(0x80, 0x100)
    if r < 0.62:
        return rng.choice(FOLD_NEIGHBOURS)
    if r < 0.80:
        return rng.choice(b"abcdefghijklmnopqrstuvwxyz")
    if r < 0.88:
        return rng.choice(b"ABCDEFGHIJKLMNOPQRSTUVWXYZ")
    if r < 0.90:
        return rng.choice((0, 0xFF, 0x2A, 0x2D))
    return rng.randrange(256)


def label(rng, maxlen=63, plain=False):
    r = rng.random()
    if r < 0.45:
        n = rng.randint(1, 4)
    elif r < 0.75:
        n = rng.randint(1, 12)
    elif r < 0.87:
        n = rng.choice((62, 63))
    else:
        n = rng.randint(1, 63)
    n = max(1, min(n, maxlen))
    if plain:
        return bytes(rng.choice(b"abcdefghijklmnopqrstuvwxyz0123456789-") for _ in range(n))
    return bytes(octet(rng) for _ in range(n))


# whole labels whose unescaped text would be read as something else by the master-file syntax
TOKEN_LIKE = (b"@", b"@", b"*", b"\\", b'"', b"$", b"$TTL", b"$ORIGIN", b"(", b")", b";", b" ", b".", b"IN", b"A", b"3600", b"1h", b"\\#", b"#", b"TYPE1", b"CLASS1", b"-")


def simple_label(rng):
    n = rng.choice((1, 1, 2, 3, 3, 5, 8))
    return bytes(rng.choice(b"abcxyzABCXYZ019-_") for _ in range(n))


def wire_len(labels):
    return sum(len(l) + 1 for l in labels)


def rel_labels(rng, budget=254, plain=False, shape=None):
    """a relative label sequence whose wire length (without root) is <= budget"""
    shape = shape or rng.choice(("short", "short", "short", "mid", "many1", "fewmax", "full", "empty", "token"))
    labs = []
    if shape == "empty":
        return ()
    if shape == "token":
        if plain:
            shape = "short"
        else:
            labs = [rng.choice(TOKEN_LIKE)]
            if rng.random() < 0.3:
                labs.insert(rng.randrange(2), simple_label(rng))
    if shape == "short":
        k = rng.randint(1, 4)
        for _ in range(k):
            labs.append(simple_label(rng) if rng.random() < 0.5 or plain else label(rng, 12, plain))
    elif shape == "mid":
        for _ in range(rng.randint(1, 8)):
            labs.append(label(rng, 63, plain))
    elif shape == "many1":
        for _ in range(rng.randint(100, 127)):
            labs.append(bytes([octet(rng) if not plain else rng.choice(b"abc")]))
    elif shape == "fewmax":
        for _ in range(rng.randint(1, 4)):
            labs.append(label(rng, 63, plain) if rng.random() < 0.3 else bytes(octet(rng) if not plain else 97 for _ in range(63)))
    elif shape == "full":
        # fill to exactly budget or budget-1
        target = budget - rng.choice((0, 0, 1, 2))
        used = 0
        while target - used >= 2:
            room = min(63, target - used - 1)
            n = room if rng.random() < 0.6 else rng.randint(1, room)
            if target - used - (n + 1) == 1:
                n -= 1
                if n == 0:
                    break
            labs.append(bytes(octet(rng) if not plain else 97 for _ in range(n)))
            used += n + 1
    while wire_len(labs) > budget and labs:
        labs.pop(rng.randrange(len(labs)))
    return tuple(labs)


def name(rng, absolute=None, plain=False, shape=None):
    if absolute is None:
        absolute = rng.random() < 0.6
    labs = rel_labels(rng, 254, plain, shape)
    if absolute:
        return labs + (b"",)
    return labs


def origin(rng, plain=False):
    r = rng.random()
    if r < 0.1:
        return (b"",)
    if r < 0.8:
        k = rng.randint(1, 3)
        return tuple(simple_label(rng) for _ in range(k)) + (b"",)
    return rel_labels(rng, 120, plain, "mid") + (b"",)


def case_variant(rng, labels):
    out = []
    for l in labels:
        out.append(bytes((c ^ 0x20) if (0x41 <= c <= 0x5A or 0x61 <= c <= 0x7A) and rng.random() < 0.5 else c for c in l))
    return tuple(out)


class Pool:
    """names that share suffixes (drives compression) with case-variant repeats"""

    def __init__(self, rng, nsuffix=4, plain=True, case_variants=True):
        self.case_variants = case_variants
        self.rng = rng
        self.suffixes = [tuple(simple_label(rng) for _ in range(rng.randint(1, 3))) + (b"",) for _ in range(nsuffix)]
        self.suffixes.append((b"",))
        self.plain = plain
        self.made = []

    def name(self):
        rng = self.rng
        r = rng.random()
        if self.made and r < 0.15:
            return rng.choice(self.made)
        if self.made and r < 0.25 and self.case_variants:
            return case_variant(rng, rng.choice(self.made))
        suf = rng.choice(self.suffixes)
        k = rng.choice((0, 1, 1, 1, 2, 3))
        pre = tuple((simple_label(rng) if self.plain or rng.random() < 0.7 else label(rng, 10)) for _ in range(k))
        n = pre + suf
        if wire_len(n) > 255:
            n = suf
        self.made.append(n)
        if len(self.made) > 40:
            self.made.pop(0)
        return n
