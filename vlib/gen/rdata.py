"""The rdata type table: for every implemented (class, type) a generator of well-formed values that
yields, per value, (a) constructor arguments for the library class and (b) an independent reference
wire encoding written as a list of parts (bytes, or NameRef for embedded names) from the defining RFC.

DNSSEC canonical-form knowledge (which embedded names are down-cased) lives in the NameRef.down flag
and follows RFC 4034 §6.2 minus NSEC (RFC 6840 §5.1) — DESIGN.md Appendix A/B8.
"""

from __future__ import annotations

import socket
import struct

from vlib.gen import names as GN
from vlib.ref import names as RN

IN, CH, ANY = 1, 3, 255


class NameRef:
    __slots__ = ("labels", "comp", "down")

    def __init__(self, labels, comp=False, down=False):
        self.labels = tuple(labels)
        self.comp = comp  # the renderer may compress it inside a message
        self.down = down  # down-cased in DNSSEC canonical form

    def __repr__(self):
        return f"N({RN.to_text(self.labels)})"


class Val:
    __slots__ = ("rdclass", "rdtype", "tname", "args", "parts", "tags", "text_ok")

    def __init__(self, rdclass, rdtype, tname, args, parts, tags=(), text_ok=True):
        self.rdclass, self.rdtype, self.tname = rdclass, rdtype, tname
        self.args = args
        self.parts = parts
        self.tags = tuple(tags)
        self.text_ok = text_ok  # False: value has no lossless text form by design of the RFC text syntax

    def has_relative(self):
        return any(isinstance(p, NameRef) and not (p.labels and p.labels[-1] == b"") for p in self.parts)

    def names(self):
        return [p for p in self.parts if isinstance(p, NameRef)]


def case_variant_of_origin(val, origin):
    """some embedded name is under the origin only up to ASCII case (relativization would respell it)"""
    o = tuple(origin)
    for n in val.names():
        full = n.labels if n.labels and n.labels[-1] == b"" else n.labels + o
        if RN.is_subdomain(full, o) and full[len(full) - len(o):] != o:
            return True
    return False


def ref_wire(parts, origin=None, canonical=False) -> bytes:
    out = bytearray()
    for p in parts:
        if isinstance(p, NameRef):
            labels = p.labels
            if not (labels and labels[-1] == b""):
                if origin is None:
                    raise ValueError("relative name without origin")
                labels = labels + tuple(origin)
            if canonical and p.down:
                labels = tuple(RN.fold(l) for l in labels)
            out += RN.to_wire(labels)
        else:
            out += p
    return bytes(out)


# ------------------------------------------------------------------------------------------ field kinds


class F:
    """field generators; every method returns a python value; tags collect boundary classes"""

    def __init__(self, rng, origin=None, relative_ok=True, plain_names=False, opaque_padding=False):
        self.rng = rng
        self.opaque_padding = opaque_padding  # wire-only users: opaque fields may carry padding the text form cannot express
        self.origin = origin
        self.relative_ok = relative_ok and origin is not None
        self.plain = plain_names
        self.tags = set()

    def uint(self, bits):
        rng = self.rng
        mx = (1 << bits) - 1
        r = rng.random()
        if r < 0.12:
            self.tags.add("min")
            return 0
        if r < 0.24:
            self.tags.add("max")
            return mx
        if r < 0.32:
            return 1
        if r < 0.40:
            self.tags.add("highbit")
            return 1 << (bits - 1)
        if r < 0.46:
            return mx - 1
        if r < 0.6:
            return rng.randrange(min(mx, 300) + 1)
        return rng.randrange(mx + 1)

    def ttl(self):
        v = self.uint(32)
        return v & 0x7FFFFFFF

    def blob(self, lo=0, hi=300, big=False):
        rng = self.rng
        r = rng.random()
        if r < 0.15:
            n = lo
            self.tags.add("empty" if lo == 0 else "minlen")
        elif r < 0.3:
            n = hi
            self.tags.add("maxlen")
        elif r < 0.45:
            n = min(hi, lo + 1)
        else:
            n = rng.randint(lo, min(hi, lo + 40))
        if big and rng.random() < 0.05:
            n = rng.randint(hi, max(hi, 2000))
        return self.octets(n)

    def octets(self, n):
        rng = self.rng
        r = rng.random()
        if r < 0.08 and n >= 2:
            # valid UTF-8 text (what RdataStyle.txt_is_utf8 prints as characters): controls, C1, quotes, BMP, astral
            out = b""
            while True:
                c = chr(rng.choice((rng.randrange(0x20), 0x22, 0x5C, 0x7F, rng.randrange(0x80, 0xA0), 0x85, rng.randrange(0xA0, 0x100), rng.randrange(0x100, 0x800),
                                    rng.randrange(0x800, 0xD800), 0x2028, 0xFEFF, 0xFFFE, rng.randrange(0xE000, 0x10000), rng.randrange(0x10000, 0x110000),
                                    rng.randrange(0x20, 0x7F), rng.randrange(0x20, 0x7F)))).encode("utf-8")
                if len(out) + len(c) > n:
                    break
                out += c
            self.tags.add("utf8text")
            return out + b"a" * (n - len(out))
        if r < 0.5:
            return bytes(GN.octet(rng) for _ in range(n))
        if r < 0.6:
            self.tags.add("allhigh")
            return bytes(rng.randrange(0x80, 0x100) for _ in range(n))
        if r < 0.68:
            return bytes([rng.choice((0, 0xFF, 0x22, 0x5C, 0x20, 0x3B))]) * n
        return bytes(rng.randrange(256) for _ in range(n))

    def cs(self, lo=0, hi=255):
        """character-string"""
        rng = self.rng
        r = rng.random()
        if r < 0.12:
            n = lo
            self.tags.add("cs-empty" if lo == 0 else "cs-min")
        elif r < 0.22:
            n = hi
            self.tags.add("cs-max")
        else:
            n = rng.randint(lo, min(hi, 24))
        b = self.octets(n)
        if any(c >= 0x80 for c in b):
            self.tags.add("cs-high")
        return b

    def name(self, comp=False, down=False):
        rng = self.rng
        r = rng.random()
        if self.relative_ok and r < 0.3:
            labels = GN.rel_labels(rng, 254 - RN.wire_len(self.origin), self.plain, rng.choice(("short", "short", "mid", "empty", "token")))
            self.tags.add("relname")
        elif self.origin is not None and r < 0.5:
            # absolute and under the origin
            labels = GN.rel_labels(rng, 254 - RN.wire_len(self.origin), self.plain, rng.choice(("short", "short", "token"))) + tuple(self.origin)
        elif r < 0.56:
            labels = (b"",)
            self.tags.add("rootname")
        elif r < 0.62:
            labels = GN.rel_labels(rng, 254, self.plain, "full") + (b"",)
            self.tags.add("maxname")
        else:
            labels = GN.rel_labels(rng, 254, self.plain, rng.choice(("short", "short", "mid", "token"))) + (b"",)
        if any(0x41 <= c <= 0x5A for l in labels for c in l):
            self.tags.add("uppername")
        return NameRef(labels, comp, down)

    def ipv4(self):
        rng = self.rng
        r = rng.random()
        if r < 0.1:
            return b"\x00\x00\x00\x00"
        if r < 0.2:
            return b"\xff\xff\xff\xff"
        return bytes(rng.randrange(256) for _ in range(4))

    def ipv6(self):
        rng = self.rng
        r = rng.random()
        if r < 0.08:
            return b"\x00" * 16
        if r < 0.16:
            return b"\xff" * 16
        if r < 0.3:
            # v4-mapped / compat
            return b"\x00" * 10 + rng.choice((b"\xff\xff", b"\x00\x00")) + self.ipv4()
        if r < 0.6:
            # zero-group pattern
            groups = []
            pat = rng.randrange(256)
            for i in range(8):
                groups.append(b"\x00\x00" if pat & (1 << i) else struct.pack("!H", rng.choice((1, 0xFFFF, 0x0A00, rng.randrange(1, 65536)))))
            return b"".join(groups)
        if r < 0.72:
            # look-alikes of the embedded-IPv4 forms (::a.b.c.d, ::ffff:a.b.c.d): a leading zero run of 1..6 groups, ffff or 0 in
            # group 5, small values elsewhere -- only six leading zero groups (or five and ffff) are an embedded IPv4 address
            lead = rng.randint(1, 6)
            groups = [0] * lead + [rng.choice((0, 1, 2, 0xFFFF)) for _ in range(8 - lead)]
            if rng.random() < 0.7:
                groups[5] = 0xFFFF
            return b"".join(struct.pack("!H", g) for g in groups)
        return bytes(rng.randrange(256) for _ in range(16))

    def types(self, maxn=12):
        """a set of rdata types for a type bitmap"""
        rng = self.rng
        r = rng.random()
        if r < 0.08:
            self.tags.add("bitmap-empty")
            return set()
        pool = [1, 2, 5, 6, 15, 16, 28, 46, 47, 48, 50, 255, 256, 257, 511, 512, 1023, 1024, 32768, 65280, 65534, 65535, 7, 8, 248, 249]
        k = rng.randint(1, maxn)
        s = set()
        for _ in range(k):
            s.add(rng.choice(pool) if rng.random() < 0.7 else rng.randrange(1, 65536))
        return s


def ref_bitmap(types) -> bytes:
    """RFC 4034 §4.1.2"""
    out = bytearray()
    wins = {}
    for t in types:
        wins.setdefault(t >> 8, bytearray(32))
        wins[t >> 8][(t & 0xFF) >> 3] |= 0x80 >> (t & 7)
    for w in sorted(wins):
        bm = bytes(wins[w]).rstrip(b"\x00")
        out += bytes([w, len(bm)]) + bm
    return bytes(out)


def lib_windows(types):
    wins = {}
    for t in types:
        wins.setdefault(t >> 8, bytearray(32))
        wins[t >> 8][(t & 0xFF) >> 3] |= 0x80 >> (t & 7)
    return tuple((w, bytes(wins[w]).rstrip(b"\x00")) for w in sorted(wins))


def v4text(b):
    return socket.inet_ntop(socket.AF_INET, b)


def v6text(b):
    return socket.inet_ntop(socket.AF_INET6, b)


def u8(v):
    return struct.pack("!B", v)


def u16(v):
    return struct.pack("!H", v)


def u32(v):
    return struct.pack("!I", v)


def cswire(b):
    return bytes([len(b)]) + b


# ------------------------------------------------------------------------------------------ EDNS options


def gen_option(f: F):
    """returns (kind, ctor-args, otype, ref wire of option data)"""
    rng = f.rng
    k = rng.choice(("ecs4", "ecs6", "ede", "nsid", "cookie", "report", "lang", "fcontact", "forg", "fdb", "generic", "generic"))
    if k == "ecs4":
        addr = f.ipv4()
        src = rng.choice((0, 1, 7, 8, 9, 24, 31, 32, rng.randint(0, 32)))
        scope = rng.choice((0, src, 32, rng.randint(0, 32)))
        nb = (src + 7) // 8
        a = bytearray(addr[:nb])
        if src % 8:
            a[-1] &= (0xFF << (8 - src % 8)) & 0xFF
        return ("ecs", (v4text(addr), src, scope), 8, struct.pack("!HBB", 1, src, scope) + bytes(a))
    if k == "ecs6":
        addr = f.ipv6()
        src = rng.choice((0, 1, 56, 63, 64, 65, 127, 128, rng.randint(0, 128)))
        scope = rng.choice((0, src, 128, rng.randint(0, 128)))
        nb = (src + 7) // 8
        a = bytearray(addr[:nb])
        if src % 8:
            a[-1] &= (0xFF << (8 - src % 8)) & 0xFF
        if addr[:12] == b"\x00" * 10 + b"\xff\xff":
            # v4-mapped text is family-ambiguous for the constructor; avoid
            return gen_option(f)
        return ("ecs", (v6text(addr), src, scope), 8, struct.pack("!HBB", 2, src, scope) + bytes(a))
    if k == "ede":
        code = rng.choice((0, 1, 15, 32, 33, 65535, rng.randrange(65536)))
        r = rng.random()
        if r < 0.3:
            text = None
        else:
            text = "".join(rng.choice("abc xyz:é漢\t\"\\") for _ in range(rng.randint(1, 12)))
            if text.endswith("\x00"):
                text += "a"
        return ("ede", (code, text), 15, u16(code) + (text.encode("utf8") if text is not None else b""))
    if k == "nsid":
        b = f.blob(0, 40)
        return ("nsid", (b,), 3, b)
    if k == "cookie":
        c = f.octets(8)
        s = f.octets(rng.choice((0, 8, 16, 32, rng.randint(8, 32))))
        return ("cookie", (c, s), 10, c + s)
    if k == "report":
        n = f.name()
        if not (n.labels and n.labels[-1] == b""):
            n = NameRef(n.labels + (b"",))
            if not RN.fits(n.labels):
                n = NameRef((b"agent", b"example", b""))
        return ("report", (n,), 18, RN.to_wire(n.labels))
    if k in ("lang", "fcontact", "forg", "fdb"):
        text = "".join(rng.choice("abcXYZ-_:/.é") for _ in range(rng.randint(0, 10)))
        return (k, (text,), {"lang": 22, "fcontact": 23, "forg": 24, "fdb": 25}[k], text.encode("utf8"))
    ot = rng.choice((5, 6, 7, 9, 11, 13, 14, 100, 65001, 65535, 4, 0))
    b = f.blob(0, 30)
    return ("generic", (ot, b), ot, b)


def build_option(kind, args):
    import dns.edns
    import dns.name

    if kind == "ecs":
        return dns.edns.ECSOption(*args)
    if kind == "ede":
        return dns.edns.EDEOption(*args)
    if kind == "nsid":
        return dns.edns.NSIDOption(*args)
    if kind == "cookie":
        return dns.edns.CookieOption(*args)
    if kind == "report":
        return dns.edns.ReportChannelOption(dns.name.Name(args[0].labels))
    if kind == "lang":
        return dns.edns.EDEExtraTextLanguageOption(*args)
    if kind == "fcontact":
        return dns.edns.FilteringContactOption(*args)
    if kind == "forg":
        return dns.edns.FilteringOrganizationOption(*args)
    if kind == "fdb":
        return dns.edns.FilteringDBOption(*args)
    return dns.edns.GenericOption(*args)


# ------------------------------------------------------------------------------------------ the table

TABLE = {}  # tname -> (rdclass, rdtype, generator)


def reg(tname, rdtype, rdclass=IN):
    def deco(fn):
        TABLE[tname] = (rdclass, rdtype, fn)
        return fn

    return deco


@reg("A", 1)
def g_a(f):
    a = f.ipv4()
    return [a], [a]


@reg("CH-A", 1, CH)
def g_cha(f):
    n = f.name(comp=True, down=False)
    v = f.uint(16)
    return [n, v], [n, u16(v)]


def _single_name(comp, down):
    def g(f):
        n = f.name(comp, down)
        return [n], [n]

    return g


reg("NS", 2)(_single_name(True, True))
reg("CNAME", 5)(_single_name(True, True))
reg("PTR", 12)(_single_name(True, True))
reg("DNAME", 39)(_single_name(False, True))
reg("NSAP-PTR", 23)(_single_name(False, False))


@reg("SOA", 6)
def g_soa(f):
    m, r = f.name(True, True), f.name(True, True)
    s = f.uint(32)
    t = [f.ttl() for _ in range(4)]
    return [m, r, s] + t, [m, r, u32(s)] + [u32(x) for x in t]


def _pref_name(comp, down):
    def g(f):
        p = f.uint(16)
        n = f.name(comp, down)
        return [p, n], [u16(p), n]

    return g


reg("MX", 15)(_pref_name(True, True))
reg("AFSDB", 18)(_pref_name(False, True))
reg("RT", 21)(_pref_name(False, True))
reg("KX", 36)(_pref_name(False, True))
reg("LP", 107)(_pref_name(False, False))


@reg("PX", 26)
def g_px(f):
    p = f.uint(16)
    a, b = f.name(False, True), f.name(False, True)
    return [p, a, b], [u16(p), a, b]


@reg("RP", 17)
def g_rp(f):
    a, b = f.name(False, True), f.name(False, True)
    return [a, b], [a, b]


@reg("SRV", 33)
def g_srv(f):
    a, b, c = f.uint(16), f.uint(16), f.uint(16)
    n = f.name(True, True)
    return [a, b, c, n], [u16(a), u16(b), u16(c), n]


@reg("NAPTR", 35)
def g_naptr(f):
    o, p = f.uint(16), f.uint(16)
    fl, sv, rx = f.cs(), f.cs(), f.cs()
    n = f.name(True, True)
    return [o, p, fl, sv, rx, n], [u16(o), u16(p), cswire(fl), cswire(sv), cswire(rx), n]


def _txt(f):
    rng = f.rng
    k = rng.choice((1, 1, 1, 2, 3, 8))
    ss = [f.cs() for _ in range(k)]
    return [tuple(ss)], [b"".join(cswire(s) for s in ss)]


for _n, _t in (("TXT", 16), ("SPF", 99), ("AVC", 258), ("NINFO", 56), ("RESINFO", 261), ("WALLET", 262)):
    reg(_n, _t)(_txt)


@reg("HINFO", 13)
def g_hinfo(f):
    a, b = f.cs(), f.cs()
    return [a, b], [cswire(a), cswire(b)]


@reg("X25", 19)
def g_x25(f):
    a = f.cs()
    return [a], [cswire(a)]


@reg("ISDN", 20)
def g_isdn(f):
    a = f.cs()
    b = f.cs() if f.rng.random() < 0.6 else b""
    return [a, b], [cswire(a), cswire(b) if b else b""]


@reg("GPOS", 27)
def g_gpos(f):
    rng = f.rng

    def fl(lim):
        v = rng.choice((0, lim, -lim, rng.uniform(-lim, lim)))
        r = rng.random()
        if r < 0.3:
            s = "%d" % int(v)
        elif r < 0.6:
            s = "%.3f" % v
        elif r < 0.7:
            s = "+%d." % abs(int(v))
        elif r < 0.8:
            s = (".%d" % rng.randrange(1000)) if lim >= 1 else "0"
        else:
            s = "%.6f" % v
        return s.encode()

    a, b, c = fl(90), fl(180), fl(100000)
    return [a, b, c], [cswire(a), cswire(b), cswire(c)]


@reg("CAA", 257)
def g_caa(f):
    rng = f.rng
    fl = f.uint(8)
    tag = bytes(rng.choice(b"abcxyzABC0189") for _ in range(rng.choice((1, 5, 5, 15, 255))))
    v = f.blob(0, 60)
    return [fl, tag, v], [u8(fl), cswire(tag), v]


@reg("CERT", 37)
def g_cert(f):
    ct = f.rng.choice((1, 2, 3, 4, 5, 6, 7, 8, 253, 254, 0, 9, 65535, f.uint(16)))
    kt, alg = f.uint(16), f.uint(8)
    c = f.blob(0, 80)
    return [ct, kt, alg, c], [u16(ct), u16(kt), u8(alg), c]


def _dnskey(f):
    fl, pr, alg = f.uint(16), f.uint(8), f.uint(8)
    k = f.blob(0, 130, big=True)
    return [fl, pr, alg, k], [u16(fl), u8(pr), u8(alg), k]


for _n, _t in (("DNSKEY", 48), ("CDNSKEY", 60)):
    reg(_n, _t)(_dnskey)


@reg("KEY", 25)
def g_key(f):
    # RFC 2535 §7.1: with the NOKEY type flags nothing follows the algorithm octet
    fl, pr, alg = f.uint(16), f.uint(8), f.uint(8)
    if fl & 0xC000 == 0xC000:
        k = b""
        f.tags.add("nokey")
    else:
        k = f.blob(1, 130)
    return [fl, pr, alg, k], [u16(fl), u8(pr), u8(alg), k]


def _ds(cds):
    def g(f):
        rng = f.rng
        kt, alg = f.uint(16), f.uint(8)
        dt = rng.choice((1, 2, 3, 4, 4, 5, 200, 255) + ((0,) if cds else ()))
        n = {1: 20, 2: 32, 3: 32, 4: 48, 0: 1}.get(dt)
        d = f.octets(n) if n is not None else f.blob(0, 70)
        return [kt, alg, dt, d], [u16(kt), u8(alg), u8(dt), d]

    return g


reg("DS", 43)(_ds(False))
reg("DLV", 32769)(_ds(False))
reg("CDS", 59)(_ds(True))


def _rrsig(f):
    tc = f.rng.choice((1, 2, 6, 46, 47, 48, 255, 65280, 65535, 0, f.uint(16)))
    alg, lab = f.uint(8), f.uint(8)
    ottl = f.ttl()
    exp, inc = f.uint(32), f.uint(32)
    kt = f.uint(16)
    signer = f.name(False, True)
    sig = f.blob(0, 140)
    return [tc, alg, lab, ottl, exp, inc, kt, signer, sig], [u16(tc), u8(alg), u8(lab), u32(ottl), u32(exp), u32(inc), u16(kt), signer, sig]


reg("RRSIG", 46)(_rrsig)
reg("SIG", 24)(_rrsig)


@reg("NSEC", 47)
def g_nsec(f):
    n = f.name(False, False)
    t = f.types()
    return [n, lib_windows(t)], [n, ref_bitmap(t)]


@reg("NSEC3", 50)
def g_nsec3(f):
    alg, fl, it = f.uint(8), f.uint(8), f.uint(16)
    salt = f.cs()
    nxt = f.cs(0, 255) if f.rng.random() < 0.3 else f.octets(f.rng.choice((20, 20, 1, 32)))
    t = f.types()
    return [alg, fl, it, salt, nxt, lib_windows(t)], [u8(alg), u8(fl), u16(it), cswire(salt), cswire(nxt), ref_bitmap(t)]


@reg("NSEC3PARAM", 51)
def g_nsec3param(f):
    alg, fl, it = f.uint(8), f.uint(8), f.uint(16)
    salt = f.cs()
    return [alg, fl, it, salt], [u8(alg), u8(fl), u16(it), cswire(salt)]


@reg("CSYNC", 62)
def g_csync(f):
    s, fl = f.uint(32), f.uint(16)
    t = f.types()
    return [s, fl, lib_windows(t)], [u32(s), u16(fl), ref_bitmap(t)]


def _tlsa(f):
    a, b, c = f.uint(8), f.uint(8), f.uint(8)
    d = f.blob(0, 70)
    return [a, b, c, d], [u8(a), u8(b), u8(c), d]


reg("TLSA", 52)(_tlsa)
reg("SMIMEA", 53)(_tlsa)


@reg("SSHFP", 44)
def g_sshfp(f):
    a, b = f.uint(8), f.uint(8)
    d = f.blob(0, 40)
    return [a, b, d], [u8(a), u8(b), d]


@reg("ZONEMD", 63)
def g_zonemd(f):
    rng = f.rng
    s = f.uint(32)
    sc = rng.choice((1, 1, 2, 240, 255))
    h = rng.choice((1, 2, 3, 240, 255))
    n = {1: 48, 2: 64}.get(h)
    d = f.octets(n) if n else f.blob(0, 70)
    return [s, sc, h, d], [u32(s), u8(sc), u8(h), d]


def _blobtype(f):
    d = f.blob(0, 90)
    return [d], [d]


for _n, _t in (("OPENPGPKEY", 61), ("DHCID", 49), ("HHIT", 67), ("BRID", 68), ("NSAP", 22)):
    reg(_n, _t)(_blobtype)


@reg("EUI48", 108)
def g_eui48(f):
    d = f.octets(6)
    return [d], [d]


@reg("EUI64", 109)
def g_eui64(f):
    d = f.octets(8)
    return [d], [d]


@reg("L32", 105)
def g_l32(f):
    p = f.uint(16)
    a = f.ipv4()
    return [p, a], [u16(p), a]


def _l64(f):
    p = f.uint(16)
    d = f.octets(8)
    return [p, d], [u16(p), d]


reg("L64", 106)(_l64)
reg("NID", 104)(_l64)


@reg("AAAA", 28)
def g_aaaa(f):
    a = f.ipv6()
    return [a], [a]


@reg("LOC", 29)
def g_loc(f):
    rng = f.rng

    def coord(maxdeg):
        r = rng.random()
        if r < 0.1:
            ms = maxdeg * 3600000
        elif r < 0.2:
            ms = 0
        else:
            ms = rng.randrange(maxdeg * 3600000 + 1)
        sign = rng.choice((1, -1))
        d, rem = divmod(ms, 3600000)
        m, rem = divmod(rem, 60000)
        s, msec = divmod(rem, 1000)
        return (d, m, s, msec, sign), 0x80000000 + sign * ms

    lat, wlat = coord(90)
    lon, wlon = coord(180)
    alt = rng.choice((0, 10000000, -10000000, 0xFFFFFFFF - 10000000, rng.randrange(0, 1 << 32) - 10000000, rng.randrange(-100000, 100000)))

    def size():
        b, e = rng.randrange(10), rng.randrange(10)
        if b == 0:
            e = 0
        return float(b * 10**e), (b << 4) | e

    # the text form drops trailing fields that hold their defaults (1 m, 10000 m, 10 m): every subset of them at its default
    sz, wsz = size() if rng.random() < 0.6 else (100.0, 0x12)
    hp, whp = size() if rng.random() < 0.6 else (1000000.0, 0x16)
    vp, wvp = size() if rng.random() < 0.6 else (1000.0, 0x13)
    return [lat, lon, float(alt), sz, hp, vp], [struct.pack("!BBBBIII", 0, wsz, whp, wvp, wlat, wlon, alt + 10000000)]


@reg("HIP", 55)
def g_hip(f):
    hit = f.cs(0, 255)
    alg = f.uint(8)
    key = f.blob(0, 80)
    servers = [f.name(False, False) for _ in range(f.rng.choice((0, 0, 1, 2, 3)))]
    return [hit, alg, key, tuple(servers)], [struct.pack("!BBH", len(hit), alg, len(key)), hit, key] + servers


def _gateway(f, rtype):
    if rtype == 0:
        return None, []
    if rtype == 1:
        a = f.ipv4()
        return v4text(a), [a]
    if rtype == 2:
        a = f.ipv6()
        return v6text(a), [a]
    n = f.name(False, False)
    return n, [n]


@reg("IPSECKEY", 45)
def g_ipseckey(f):
    prec, alg = f.uint(8), f.uint(8)
    gt = f.rng.randrange(4)
    gw, parts = _gateway(f, gt)
    key = f.blob(0, 60)
    return [prec, gt, alg, gw, key], [u8(prec), u8(gt), u8(alg)] + parts + [key]


@reg("AMTRELAY", 260)
def g_amtrelay(f):
    prec = f.uint(8)
    d = f.rng.random() < 0.5
    rt = f.rng.randrange(4)
    gw, parts = _gateway(f, rt)
    return [prec, d, rt, gw], [u8(prec), u8(rt | (0x80 if d else 0))] + parts


@reg("APL", 42)
def g_apl(f):
    rng = f.rng
    items, wire = [], bytearray()
    for _ in range(rng.choice((0, 1, 1, 2, 5))):
        fam = rng.choice((1, 2, 1, 2, 1, 2, 3, 0, 65535))
        neg = rng.random() < 0.4
        if fam not in (1, 2):
            # RFC 3123 is open to other address families: the address part is opaque (1..127 octets, here without trailing zero octets)
            n = rng.choice((0, 1, 2, 63, 64, 100, 127))
            a = bytes(rng.randrange(256) for _ in range(max(n - 1, 0))) + (bytes([rng.randrange(1, 256)]) if n else b"")
            pre = rng.choice((0, 8, 255, rng.randrange(256)))
            wire += struct.pack("!HBB", fam, pre, len(a) | (0x80 if neg else 0)) + a
            items.append((fam, neg, a.hex(), pre))
            continue
        if fam == 1:
            a = f.ipv4()
            if rng.random() < 0.4:
                k = rng.randrange(5)
                a = a[:k] + b"\x00" * (4 - k)
            pre = rng.choice((0, 8, 24, 32, rng.randint(0, 32)))
            text = v4text(a)
        else:
            a = f.ipv6()
            if rng.random() < 0.4:
                k = rng.randrange(17)
                a = a[:k] + b"\x00" * (16 - k)
            pre = rng.choice((0, 64, 128, rng.randint(0, 128)))
            text = v6text(a)
        trimmed = a.rstrip(b"\x00")
        wire += struct.pack("!HBB", fam, pre, len(trimmed) | (0x80 if neg else 0)) + trimmed
        items.append((fam, neg, text, pre))
    return [("APLITEMS", tuple(items))], [bytes(wire)]


def _svcb(f):
    rng = f.rng
    prio = rng.choice((0, 1, 1, 16, 65535))
    target = f.name(False, False)
    params = {}
    wire = {}
    if prio != 0:
        keys = set()
        for _ in range(rng.choice((0, 1, 2, 3, 5))):
            keys.add(rng.choice((1, 2, 3, 4, 5, 6, 7, 8, 10, 9, 11, 100, 65280, 65535)))
        if 2 in keys:
            keys.add(1)
        for k in sorted(keys):
            if k == 1 or k == 10:
                ids = [f.cs(1, 255) if rng.random() < 0.7 else bytes(rng.choice(b"h2,\\\"3 ") for _ in range(rng.randint(1, 6))) for _ in range(rng.choice((1, 1, 2, 3)))]
                if k == 10 and rng.random() < 0.2:
                    params[k] = None
                    wire[k] = b""
                else:
                    params[k] = ("ALPN" if k == 1 else "DOCPATH", tuple(ids))
                    wire[k] = b"".join(cswire(i) for i in ids)
            elif k in (2, 8):
                params[k] = None
                wire[k] = b""
            elif k == 3:
                p = f.uint(16)
                params[k] = ("PORT", p)
                wire[k] = u16(p)
            elif k == 4:
                addrs = [f.ipv4() for _ in range(rng.choice((1, 2, 4)))]
                params[k] = ("V4", tuple(v4text(a) for a in addrs))
                wire[k] = b"".join(addrs)
            elif k == 6:
                addrs = [f.ipv6() for _ in range(rng.choice((1, 2)))]
                params[k] = ("V6", tuple(addrs))
                wire[k] = b"".join(addrs)
            elif k == 5:
                e = f.blob(0, 50)
                params[k] = ("ECH", e)
                wire[k] = e
            else:
                b = f.blob(0, 30)
                if len(b) == 0:
                    params[k] = None
                else:
                    params[k] = ("GEN", b)
                wire[k] = b
        if keys and rng.random() < 0.4:
            mand = sorted(rng.sample(sorted(keys), rng.randint(1, len(keys))))
            # the constructor takes the keys in any order and spelling (numbers, or names as the text reader passes them);
            # the wire form lists them in ascending numeric order whatever was given
            given = list(mand)
            rng.shuffle(given)
            if rng.random() < 0.5:
                given = [("name", k) for k in given]
            params[0] = ("MAND", tuple(given))
            wire[0] = b"".join(u16(k) for k in mand)
    w = b"".join(u16(k) + u16(len(wire[k])) + wire[k] for k in sorted(wire))
    return [prio, target, ("SVCPARAMS", params)], [u16(prio), target, w]


reg("SVCB", 64)(_svcb)
reg("HTTPS", 65)(_svcb)


@reg("URI", 256)
def g_uri(f):
    p, w = f.uint(16), f.uint(16)
    t = f.blob(1, 80)
    return [p, w, t], [u16(p), u16(w), t]


@reg("WKS", 11)
def g_wks(f):
    a = f.ipv4()
    proto = f.rng.choice((6, 17, 0, 255, f.uint(8)))
    bm = f.blob(0, 20)
    if not f.opaque_padding:
        # the text form lists port numbers, so octets after the last set bit are not representable there
        bm = bm.rstrip(b"\x00")
    elif f.rng.random() < 0.3:
        bm = bm + b"\x00" * f.rng.randint(1, 3)
    return [a, proto, bm], [a, u8(proto), bm]


@reg("TKEY", 249, ANY)
def g_tkey(f):
    alg = f.name(False, False)
    inc, exp = f.uint(32), f.uint(32)
    mode, err = f.uint(16), f.uint(16)
    key, other = f.blob(0, 60), f.blob(0, 20)
    return [alg, inc, exp, mode, err, key, other], [alg, u32(inc), u32(exp), u16(mode), u16(err), u16(len(key)), key, u16(len(other)), other]


@reg("TSIG", 250, ANY)
def g_tsig(f):
    alg = f.name(False, False)
    ts = f.uint(48)
    fudge = f.uint(16)
    mac = f.blob(0, 64)
    oid = f.uint(16)
    err = f.rng.choice((0, 16, 17, 18, 22, 4095, f.uint(12)))
    other = f.blob(0, 10)
    return [alg, ts, fudge, mac, oid, err, other], [alg, struct.pack("!HIH", ts >> 32, ts & 0xFFFFFFFF, fudge), u16(len(mac)), mac, u16(oid), u16(err), u16(len(other)), other]


@reg("DSYNC", 66)
def g_dsync(f):
    rt = f.rng.choice((59, 60, 62, 1, 65535, f.uint(16)))
    sc = f.uint(8)
    port = f.uint(16)
    n = f.name(False, False)
    return [rt, sc, port, n], [u16(rt), u8(sc), u16(port), n]


@reg("OPT", 41)
def g_opt(f):
    opts = [gen_option(f) for _ in range(f.rng.choice((0, 1, 1, 2, 4)))]
    w = b"".join(u16(o[2]) + u16(len(o[3])) + o[3] for o in opts)
    return [("OPTIONS", tuple((o[0], o[1]) for o in opts))], [w]


@reg("UNKNOWN", 65280)
def g_unknown(f):
    d = f.blob(0, 100)
    return [d], [d]


# names carrying types, for C15
NAME_TYPES = [t for t in ("CH-A", "NS", "CNAME", "PTR", "DNAME", "NSAP-PTR", "SOA", "MX", "AFSDB", "RT", "KX", "LP", "PX", "RP", "SRV", "NAPTR",
                          "RRSIG", "SIG", "NSEC", "HIP", "IPSECKEY", "AMTRELAY", "SVCB", "HTTPS", "TKEY", "TSIG", "DSYNC")]


def gen(rng, tname, origin=None, relative_ok=True, plain_names=False, unknown_type=None, opaque_padding=False):
    rdclass, rdtype, fn = TABLE[tname]
    if tname in META_TYPES:
        # meta RRs never live in zones: their names are always absolute (TSIG.from_wire ignores the origin)
        relative_ok = False
        origin = None
    f = F(rng, origin, relative_ok, plain_names, opaque_padding)
    if tname == "UNKNOWN":
        rdtype = unknown_type or rng.choice((65280, 65281, 65534, 300, 1000, 32770, 127))
        if rng.random() < 0.2:
            rdclass = rng.choice((CH, 4, 254, 65280))
    args, parts = fn(f)
    return Val(rdclass, rdtype, tname, args, parts, sorted(f.tags))


META_TYPES = ("OPT", "TSIG", "TKEY")
ALL_TYPES = sorted(TABLE)
# types that may appear as ordinary records in zones/messages (no meta types)
DATA_TYPES = [t for t in ALL_TYPES if t not in ("OPT", "TSIG", "TKEY", "CH-A")]


def build(val):
    """construct the library object for a Val through the public class constructor"""
    import dns.name
    import dns.rdata

    cls = dns.rdata.get_rdata_class(val.rdclass, val.rdtype)
    args = []
    for a in val.args:
        if isinstance(a, NameRef):
            args.append(dns.name.Name(a.labels))
        elif isinstance(a, tuple) and a and isinstance(a[0], NameRef):
            args.append(tuple(dns.name.Name(x.labels) for x in a))
        elif isinstance(a, tuple) and len(a) == 2 and a[0] == "APLITEMS":
            import dns.rdtypes.IN.APL as APL

            args.append([APL.APLItem(*it) for it in a[1]])
        elif isinstance(a, tuple) and len(a) == 2 and a[0] == "SVCPARAMS":
            import dns.rdtypes.svcbbase as S

            d = {}
            for k, v in a[1].items():
                if v is None:
                    d[S.ParamKey.make(k)] = None
                else:
                    kind, x = v
                    d[S.ParamKey.make(k)] = {
                        "ALPN": lambda x: S.ALPNParam(x), "DOCPATH": lambda x: S.DoCPathParam(x), "PORT": lambda x: S.PortParam(x),
                        "V4": lambda x: S.IPv4HintParam(x), "V6": lambda x: S.IPv6HintParam(x), "ECH": lambda x: S.ECHParam(x),
                        "GEN": lambda x: S.GenericParam(x), "MAND": lambda x: S.MandatoryParam([S.key_to_text(k[1]).encode() if isinstance(k, tuple) else k for k in x]),
                    }[kind](x)
            args.append(d)
        elif isinstance(a, tuple) and len(a) == 2 and a[0] == "OPTIONS":
            args.append([build_option(k, ar) for k, ar in a[1]])
        else:
            args.append(a)
    return cls(val.rdclass, val.rdtype, *args)
