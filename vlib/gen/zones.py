"""Zone content generator + helpers to materialise a model zone in the library.

Model zone ("MZ"): origin labels + dict: owner labels (absolute, exact spelling) -> dict (rdtype, covers) -> [ttl, [Val, ...]]
All names inside Vals are absolute.  Owners are unique up to ASCII case.
"""

from __future__ import annotations

import struct

from vlib.gen import names as GN
from vlib.gen import rdata as GR
from vlib.ref import names as RN

NS, SOA, CNAME, DS, RRSIG, NSEC, A, AAAA, TXT, MX, DNAME = 2, 6, 5, 43, 46, 47, 1, 28, 16, 15, 39
SINGLETONS = {5, 6, 39, 47}
CNAME_KIND_OK = {RRSIG, NSEC, 50, 25}  # may coexist with CNAME (NSEC3, KEY too; library's "neutral" set + RRSIG(CNAME))

SAFE_TYPES = ["A", "AAAA", "TXT", "MX", "SRV", "PTR", "HINFO", "CAA", "SSHFP", "TLSA", "NAPTR", "RP", "AFSDB", "LOC", "URI", "SVCB",
              "HTTPS", "DNSKEY", "DS", "CERT", "SPF", "KX", "DNAME", "NSEC3PARAM", "OPENPGPKEY", "EUI48", "L32", "NID", "APL", "WKS",
              "IPSECKEY", "DHCID", "SMIMEA", "CDS", "CDNSKEY", "CSYNC", "ZONEMD", "X25", "ISDN", "RT", "PX", "GPOS", "AMTRELAY", "HIP",
              "LP", "NSAP", "NSAP-PTR", "EUI64", "L64", "DLV", "AVC", "NINFO", "RESINFO", "WALLET", "HHIT", "BRID", "DSYNC", "UNKNOWN"]


class MZ:
    def __init__(self, origin):
        self.origin = tuple(origin)
        self.nodes = {}  # key: folded labels -> (exact labels, {(rdtype, covers): [ttl, [Val]]})

    def key(self, labels):
        return tuple(RN.fold(l) for l in labels)

    def owner(self, labels):
        k = self.key(labels)
        if k not in self.nodes:
            self.nodes[k] = (tuple(labels), {})
        return self.nodes[k][1]

    def add(self, labels, val, ttl, covers=0):
        sets = self.owner(labels)
        if val.rdtype in (46, 24) and covers == 0:
            covers = int(val.args[0])  # signature sets are kept per covered type
        k = (val.rdtype, covers)
        if k not in sets:
            sets[k] = [ttl, []]
        if val.rdtype in SINGLETONS:
            sets[k][1] = [val]
        else:
            # duplicates collapse (by reference canonical wire)
            w = GR.ref_wire(val.parts, None, canonical=True)
            if all(GR.ref_wire(v.parts, None, canonical=True) != w for v in sets[k][1]):
                sets[k][1].append(val)
        sets[k][0] = min(sets[k][0], ttl)

    def names(self):
        return [v[0] for v in self.nodes.values()]

    def sorted_names(self):
        return sorted(self.names(), key=RN.key)

    def sets(self, labels):
        return self.nodes[self.key(labels)][1]

    def count_rrs(self):
        return sum(len(s[1]) for _, sets in self.nodes.values() for s in sets.values())


def gen_ttl(rng):
    return rng.choice((0, 1, 60, 300, 300, 3600, 3600, 86400, 2**31 - 1, rng.randrange(2**31)))


def simple_val(rng, tname, origin, plain=True, within=None):
    """a Val of type tname with absolute names; `within`: candidate absolute names of the zone to point at"""
    for _ in range(20):
        v = GR.gen(rng, tname, origin, relative_ok=False, plain_names=plain)
        if not GR.case_variant_of_origin(v, origin):
            return v
    raise ValueError("could not generate a value without an origin case variant")


def soa_val(rng, origin, serial=None):
    m = GR.NameRef((b"ns1",) + tuple(origin), True, True)
    r = GR.NameRef((b"hostmaster",) + tuple(origin), True, True)
    s = serial if serial is not None else rng.choice((0, 1, 2, 100, 2**31 - 1, 2**31, 2**32 - 2, 2**32 - 1, rng.randrange(2**32)))
    t = [rng.choice((60, 3600, 86400, 0, 2**31 - 1)) for _ in range(4)]
    args = [m, r, s] + t
    parts = [m, r, struct.pack("!I", s)] + [struct.pack("!I", x) for x in t]
    return GR.Val(1, SOA, "SOA", args, parts)


def name_val(tname, rdtype, target, comp=True, down=True):
    n = GR.NameRef(tuple(target), comp, down)
    return GR.Val(1, rdtype, tname, [n], [n])


def a_val(rng):
    b = bytes(rng.randrange(256) for _ in range(4))
    return GR.Val(1, A, "A", [b], [b])


def gen_zone(rng, plain=True, size=None, types=None, delegations=True, cnames=True, exotic_names=False, origin=None):
    origin = origin or (tuple(GN.simple_label(rng) for _ in range(rng.randint(1, 3))) + (b"",))
    if origin == (b"",):
        origin = (b"example", b"")
    z = MZ(origin)
    # apex
    z.add(origin, soa_val(rng, origin), gen_ttl(rng))
    for i in range(rng.randint(1, 2)):
        z.add(origin, name_val("NS", NS, (b"ns%d" % (i + 1),) + origin), 3600)
    size = size if size is not None else rng.choice((0, 2, 5, 5, 10, 20))
    types = types or SAFE_TYPES
    labels_pool = [GN.simple_label(rng) for _ in range(6)] + [b"*", b"a", b"b", b"z", b"Z", b"_tcp"]

    def lab():
        if exotic_names and rng.random() < 0.3:
            return GN.label(rng, 12)
        return rng.choice(labels_pool)

    def rel_name():
        depth = rng.choice((1, 1, 1, 2, 2, 3))
        labs = tuple(lab() for _ in range(depth))
        if b"*" in labs[1:]:
            labs = tuple(l if (i == 0 or l != b"*") else b"w" for i, l in enumerate(labs))
        return labs

    owners = []
    for _ in range(size):
        n = rel_name() + origin
        if not RN.fits(n):
            continue
        owners.append(n)
        r = rng.random()
        if cnames and r < 0.1 and z.key(n) not in z.nodes:
            z.add(n, name_val("CNAME", CNAME, rng.choice(owners + [origin, (b"ext", b"other", b"")])), gen_ttl(rng))
            continue
        if z.key(n) in z.nodes and any(k[0] == CNAME for k in z.sets(n)):
            continue
        for _ in range(rng.choice((1, 1, 2, 3))):
            t = rng.choice(types)
            if t == "DNAME" and n == origin:
                continue
            try:
                v = simple_val(rng, t, origin, plain)
            except Exception:
                continue
            ttl = gen_ttl(rng)
            for _ in range(rng.choice((1, 1, 2, 3))):
                if v.rdclass == 1:
                    z.add(n, v, ttl)
                try:
                    v = simple_val(rng, t, origin, plain)
                except Exception:
                    break
    if delegations:
        for _ in range(rng.choice((0, 1, 1, 2, 3))):
            cut = rel_name() + origin
            if not RN.fits((b"ns1",) + cut) or cut == origin:
                continue
            if z.key(cut) in z.nodes and any(k[0] == CNAME for k in z.sets(cut)):
                continue
            for i in range(rng.randint(1, 2)):
                z.add(cut, name_val("NS", NS, (b"ns%d" % (i + 1),) + cut), 3600)
            if rng.random() < 0.5:
                dsv = simple_val(rng, "DS", origin)
                z.add(cut, dsv, 3600)
            # glue beneath, sometimes at the cut, sometimes a nested cut
            z.add((b"ns1",) + cut, a_val(rng), 3600)
            if rng.random() < 0.4:
                z.add(cut, a_val(rng), 300)
            if rng.random() < 0.3 and RN.fits((b"ns", b"sub") + cut):
                z.add((b"sub",) + cut, name_val("NS", NS, (b"ns", b"sub") + cut), 3600)
                z.add((b"ns", b"sub") + cut, a_val(rng), 60)
            if rng.random() < 0.3:
                z.add((b"deep", b"er") + cut, simple_val(rng, "TXT", origin), 60)
    return z


# ------------------------------------------------------------------------------------------ materialisation in the library


def lib_name(labels, origin, relativize):
    import dns.name

    n = dns.name.Name(labels)
    if relativize:
        return n.relativize(dns.name.Name(origin))
    return n


def norm_val(val, origin, relativize):
    """Val with names in the zone's convention (relative iff under origin when relativize)"""
    if not relativize:
        return val
    o = tuple(origin)

    def conv(n):
        if RN.is_subdomain(n.labels, o):
            return GR.NameRef(n.labels[: len(n.labels) - len(o)], n.comp, n.down)
        return n

    args = []
    for a in val.args:
        if isinstance(a, GR.NameRef):
            args.append(conv(a))
        elif isinstance(a, tuple) and a and isinstance(a[0], GR.NameRef):
            args.append(tuple(conv(x) for x in a))
        else:
            args.append(a)
    return GR.Val(val.rdclass, val.rdtype, val.tname, args, val.parts, val.tags)


_comment_no = [0]


def comments_of_lib_zone(z):
    """{(folded absolute owner, type, covers, digestable rdata): comment or None} for every record of a library zone"""
    out = {}
    for name, node in z.nodes.items():
        absname = name.derelativize(z.origin) if not name.is_absolute() else name
        k = tuple(RN.fold(l) for l in absname.labels)
        for rds in node.rdatasets:
            for rd in rds:
                out[(k, int(rds.rdtype), int(rds.covers), rd.to_digestable(z.origin))] = rd.rdcomment
    return out


def build_lib_zone(mz, relativize=True, zone_factory=None, order=None, comment_rng=None):
    """populate a library zone through find_rdataset(create=True) — no parser involved; with comment_rng some records get a
    (unique) end-of-line comment attached the way the zone-file reader attaches them"""
    import dns.name
    import dns.rdataclass
    import dns.zone

    factory = zone_factory or dns.zone.Zone
    z = factory(dns.name.Name(mz.origin), dns.rdataclass.IN, relativize=relativize)
    items = []
    for exact, sets in mz.nodes.values():
        for (rdtype, covers), (ttl, vals) in sets.items():
            items.append((exact, rdtype, covers, ttl, vals))
    if order is not None:
        order.shuffle(items)
    import dns.rdataset
    import dns.versioned

    def make_rds(rdtype, covers, ttl, vals):
        rds = dns.rdataset.Rdataset(dns.rdataclass.IN, rdtype, covers, ttl)
        for v in vals:
            rd = GR.build(norm_val(v, mz.origin, relativize))
            if comment_rng is not None and comment_rng.random() < 0.35:
                _comment_no[0] += 1
                try:
                    rd = rd.replace(rdcomment=comment_rng.choice((" c%d", " note %d ; with a second semicolon", "c%d \"quoted\" (paren")) % _comment_no[0])
                except Exception:
                    pass  # some types cannot be rebuilt through replace() (observed for LOC; see C07)
            rds.add(rd, ttl)
        rds.ttl = ttl
        return rds

    if isinstance(z, dns.versioned.Zone):
        with z.writer() as txn:
            for exact, rdtype, covers, ttl, vals in items:
                txn.replace(lib_name(exact, mz.origin, relativize), make_rds(rdtype, covers, ttl, vals))
        return z
    for exact, rdtype, covers, ttl, vals in items:
        name = lib_name(exact, mz.origin, relativize)
        node = z.find_node(name, create=True)
        node.replace_rdataset(make_rds(rdtype, covers, ttl, vals))
    return z


def content_of_lib_zone(z):
    """canonical content of a library zone: {folded abs owner: {(type, covers): (ttl, frozenset(canonical rdata wire))}}"""
    import dns.name

    out = {}
    origin = z.origin
    for name, node in z.nodes.items():
        absname = name.derelativize(origin) if not name.is_absolute() else name
        k = tuple(RN.fold(l) for l in absname.labels)
        d = out.setdefault(k, {})
        for rds in node.rdatasets:
            d[(int(rds.rdtype), int(rds.covers))] = (rds.ttl, frozenset(rd.to_digestable(origin) for rd in rds))
    return {k: v for k, v in out.items() if v}


def content_of_mz(mz, lib_canonical=True):
    """same shape from the model; canonical rdata wire computed by the reference (names absolute)"""
    out = {}
    for k, (exact, sets) in mz.nodes.items():
        d = {}
        for (rdtype, covers), (ttl, vals) in sets.items():
            if not vals:
                continue
            if lib_canonical:
                d[(rdtype, covers)] = (ttl, frozenset(GR.build(v).to_digestable() for v in vals))
            else:
                d[(rdtype, covers)] = (ttl, frozenset(GR.ref_wire(v.parts, None, canonical=True) for v in vals))
        if d:
            out[k] = d
    return out


def mz_to_text(mz, rng=None, relativize_text=False):
    """a straightforward absolute-name master file for the model zone (reference writer)"""
    import dns.name

    lines = ["$ORIGIN " + RN.to_text(mz.origin)]
    for exact in mz.sorted_names():
        for (rdtype, covers), (ttl, vals) in mz.sets(exact).items():
            for v in vals:
                rd = GR.build(v)
                import dns.rdatatype

                lines.append(f"{RN.to_text(exact)} {ttl} IN {dns.rdatatype.to_text(rd.rdtype)} {rd.to_text()}")
    return "\n".join(lines) + "\n"
