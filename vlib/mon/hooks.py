"""Monitors applied to the real code from outside the repository (no source hooks)."""

from __future__ import annotations

import contextlib

import dns.exception
import dns.name
import dns.wirebase

from vlib.core import StepBudgetExceeded


# ---------------------------------------------------------------- Name-construction invariant hook


class NameHook:
    """Wraps dns.name.Name.__init__/__setstate__ and re-checks, independently of
    _validate_labels, every Name object created while installed."""

    def __init__(self):
        self.evaluations = 0
        self.bad = []
        self._orig_init = None
        self._orig_setstate = None

    def _check(self, obj):
        self.evaluations += 1
        try:
            labels = obj.labels
        except AttributeError:
            return
        total = 0
        n = len(labels)
        ok = True
        for i, l in enumerate(labels):
            if not isinstance(l, bytes) or len(l) > 63:
                ok = False
            if len(l) == 0 and i != n - 1:
                ok = False
            total += len(l) + 1
        if total > 255:
            ok = False
        if not ok and len(self.bad) < 20:
            self.bad.append(tuple(labels))

    def install(self):
        cls = dns.name.Name
        hook = self
        self._orig_init = cls.__init__
        orig_init = cls.__init__

        def __init__(self, *a, **k):
            orig_init(self, *a, **k)
            hook._check(self)

        cls.__init__ = __init__
        if hasattr(cls, "__setstate__"):
            self._orig_setstate = cls.__setstate__
            orig_ss = cls.__setstate__

            def __setstate__(self, *a, **k):
                orig_ss(self, *a, **k)
                hook._check(self)

            cls.__setstate__ = __setstate__
        return self

    def uninstall(self):
        cls = dns.name.Name
        if self._orig_init is not None:
            cls.__init__ = self._orig_init
        if self._orig_setstate is not None:
            cls.__setstate__ = self._orig_setstate

    def drain(self):
        b, self.bad = self.bad, []
        return b


# ---------------------------------------------------------------- Parser spy


class ParserSpy:
    """Wraps dns.wirebase.Parser.seek/get_bytes; records seek targets, octets touched and a
    logical step count; raises StepBudgetExceeded when the budget for the current decode is
    exhausted (a decode that needs more than budget parser steps is 'not terminating in linear
    time')."""

    def __init__(self):
        self.seeks = []
        self.steps = 0
        self.budget = None
        self.installed = False
        self.max_read_end = 0

    def install(self):
        P = dns.wirebase.Parser
        spy = self
        self._seek, self._get = P.seek, P.get_bytes

        def seek(self, where):
            spy.steps += 1
            spy.seeks.append(where)
            if spy.budget is not None and spy.steps > spy.budget:
                raise StepBudgetExceeded(f"parser steps {spy.steps} > budget {spy.budget}")
            return spy._seek(self, where)

        def get_bytes(self, size):
            spy.steps += 1
            if spy.budget is not None and spy.steps > spy.budget:
                raise StepBudgetExceeded(f"parser steps {spy.steps} > budget {spy.budget}")
            r = spy._get(self, size)
            if self.current > spy.max_read_end:
                spy.max_read_end = self.current
            return r

        P.seek, P.get_bytes = seek, get_bytes
        self.installed = True
        return self

    def uninstall(self):
        if self.installed:
            P = dns.wirebase.Parser
            P.seek, P.get_bytes = self._seek, self._get
            self.installed = False

    def begin(self, budget=None):
        self.seeks = []
        self.steps = 0
        self.budget = budget
        self.max_read_end = 0

    def end(self):
        self.budget = None


# ---------------------------------------------------------------- exception-family monitor

SEMANTIC_FILES = ("zone.py", "transaction.py", "versioned.py", "btreezone.py", "node.py", "rdataset.py", "zonefile.py")


def classify_exception(e: BaseException, allow_semantic=False):
    """'lib' (DNSException subclass), 'semantic' (documented ValueError/KeyError raised by the
    zone-semantic layer), or 'foreign'."""
    if isinstance(e, dns.exception.DNSException):
        return "lib"
    if allow_semantic and isinstance(e, (ValueError, KeyError)) and not isinstance(e, UnicodeError):
        tb = e.__traceback__
        last = None
        while tb is not None:
            fn = tb.tb_frame.f_code.co_filename
            if "/dns/" in fn:
                last = fn
            tb = tb.tb_next
        if last is not None and last.endswith(SEMANTIC_FILES):
            return "semantic"
    return "foreign"


@contextlib.contextmanager
def swap_attr(obj, name, value):
    old = getattr(obj, name)
    setattr(obj, name, value)
    try:
        yield old
    finally:
        setattr(obj, name, old)
