"""Deterministic scheduler for real threads + shim threading primitives + line-level yield injection.

Exactly one workload thread runs at a time.  At every *yield point* the running thread hands control
back to the scheduler, which picks the next runnable thread from a strategy (seeded random, PCT-style
priorities, or a recorded / prefix choice list for replay and bounded-exhaustive search).

Yield points: every operation on the shim Lock / Event objects, sys.monitoring LINE events on the code
objects registered with `watch_code`, and explicit `sched.pause()` calls in the workload.

Blocked threads carry a wake-up predicate, so "some thread unfinished and none runnable" (deadlock /
lost wake-up) is an exact observation, not a timeout.
"""

from __future__ import annotations

import sys
import threading as _real_threading
import types


class SchedAbort(BaseException):
    """raised inside workload threads to unwind them when a run is abandoned (deadlock, step limit)"""


class Deadlock(Exception):
    pass


class StepLimit(Exception):
    pass


class Stall(Exception):
    """the running thread did not come back to the scheduler within the wall watchdog: it is blocked on
    something the scheduler does not control (e.g. a real lock).  Inconclusive, never a verdict."""


class _T:
    __slots__ = ("tid", "name", "fn", "thread", "go", "finished", "blocked", "pred", "exc", "started", "why")

    def __init__(self, tid, name, fn):
        self.tid, self.name, self.fn = tid, name, fn
        self.thread = None
        self.go = _real_threading.Semaphore(0)
        self.finished = False
        self.blocked = False
        self.pred = None
        self.exc = None
        self.started = False
        self.why = ""


class Scheduler:
    def __init__(self, strategy, max_steps=20000):
        self.strategy = strategy
        self.threads = []
        self.back = _real_threading.Semaphore(0)
        self.current = None
        self.steps = 0
        self.max_steps = max_steps
        self.abort = False
        self.trace = []  # (step, chosen tid, reason of the yield of the previous thread)
        self.choices = []  # chosen index among the runnable list at each decision with >1 alternative
        self.events = []  # workload / shim event log: tuples, appended only by the thread holding the run token
        self.by_ident = {}
        self.line_yield = None  # callable() -> bool deciding whether a LINE event yields

    # ---------------------------------------------------------------- workload side
    def spawn(self, fn, name=None):
        t = _T(len(self.threads), name or f"t{len(self.threads)}", fn)
        self.threads.append(t)
        return t.tid

    def me(self):
        return self.by_ident.get(_real_threading.get_ident())

    def log(self, *ev):
        self.events.append((self.steps,) + ev)

    def pause(self, why="pause"):
        """explicit yield point in the workload"""
        t = self.me()
        if t is None or t is not self.current:
            return
        self._yield(t, why)

    def block_until(self, pred, why):
        t = self.me()
        if t is None:
            # a non-scheduled caller (e.g. the scheduler thread doing a solo reader) must never need to block
            if pred():
                return
            raise Deadlock(f"unscheduled caller would block on {why}")
        while not pred():
            t.blocked, t.pred, t.why = True, pred, why
            self._yield(t, why)
        t.blocked, t.pred = False, None

    def _yield(self, t, why):
        if self.abort:
            raise SchedAbort()
        t.why = why
        self.back.release()
        t.go.acquire()
        if self.abort:
            raise SchedAbort()

    def _runner(self, t):
        self.by_ident[_real_threading.get_ident()] = t
        t.go.acquire()
        try:
            if not self.abort:
                t.fn()
        except SchedAbort:
            pass
        except BaseException as e:  # workload exceptions are results, reported by the check
            t.exc = e
        finally:
            t.finished = True
            self.back.release()

    # ---------------------------------------------------------------- scheduler side
    def runnable(self):
        out = []
        for t in self.threads:
            if t.finished:
                continue
            if t.blocked:
                try:
                    ok = t.pred()
                except Exception:
                    ok = False
                if not ok:
                    continue
            out.append(t)
        return out

    def run(self, on_step=None):
        """runs to quiescence.  Raises Deadlock / StepLimit after unwinding the workload threads."""
        for t in self.threads:
            t.thread = _real_threading.Thread(target=self._runner, args=(t,), daemon=True)
            t.thread.start()
        err = None
        try:
            while True:
                if all(t.finished for t in self.threads):
                    break
                rs = self.runnable()
                if not rs:
                    stuck = [(t.name, t.why) for t in self.threads if not t.finished]
                    err = Deadlock(f"no runnable thread; unfinished: {stuck}")
                    break
                if self.steps >= self.max_steps:
                    err = StepLimit(f"more than {self.max_steps} scheduling steps")
                    break
                if len(rs) == 1:
                    nxt = rs[0]
                else:
                    i = self.strategy.choose(self, rs)
                    self.choices.append(i)
                    nxt = rs[i]
                self.steps += 1
                self.trace.append((nxt.tid, nxt.why))
                self.current = nxt
                nxt.go.release()
                if not self.back.acquire(timeout=60):
                    err = Stall(f"thread {nxt.name} did not yield within 60 s (blocked outside the scheduler's control?)")
                    break
                self.current = None
                if on_step is not None:
                    on_step(self)
        finally:
            if err is not None or not all(t.finished for t in self.threads):
                self.abort = True
                for t in self.threads:
                    if not t.finished:
                        t.go.release()
                for t in self.threads:
                    t.thread.join(timeout=5)
        if err is not None:
            raise err

    def trace_key(self):
        return tuple(t for t, _ in self.trace)


# -------------------------------------------------------------------- strategies


class RandomStrategy:
    def __init__(self, rng, stay=0.5):
        self.rng = rng
        self.stay = stay

    def choose(self, sched, rs):
        # bias towards continuing the thread that just ran (keeps runs short, still explores preemptions)
        last = sched.trace[-1][0] if sched.trace else None
        for i, t in enumerate(rs):
            if t.tid == last and self.rng.random() < self.stay:
                return i
        return self.rng.randrange(len(rs))


class PCTStrategy:
    """probabilistic concurrency testing: random priorities, d priority-change points"""

    def __init__(self, rng, nthreads, depth=3, horizon=400):
        self.rng = rng
        self.prio = {i: rng.random() + 1.0 for i in range(nthreads)}
        self.change = sorted(rng.randrange(1, horizon) for _ in range(depth))
        self.k = 0

    def choose(self, sched, rs):
        self.k += 1
        if self.change and self.k >= self.change[0]:
            self.change.pop(0)
            last = sched.trace[-1][0] if sched.trace else rs[0].tid
            self.prio[last] = self.rng.random() * 0.5
        best = max(range(len(rs)), key=lambda i: self.prio.get(rs[i].tid, 0))
        return best


class PrefixStrategy:
    """follows a recorded choice list, then a default policy: keep running the current thread if it is
    runnable, else the lowest thread id (used for replay and for bounded-exhaustive DFS)"""

    def __init__(self, prefix):
        self.prefix = list(prefix)
        self.pos = 0
        self.alternatives = []  # (decision index, number of alternatives, default index, preemptive?)

    def choose(self, sched, rs):
        last = sched.trace[-1][0] if sched.trace else None
        default = 0
        for i, t in enumerate(rs):
            if t.tid == last:
                default = i
                break
        cur_runnable = any(t.tid == last for t in rs)
        if self.pos < len(self.prefix):
            c = self.prefix[self.pos]
            if c >= len(rs):
                c = default
        else:
            c = default
        self.alternatives.append((self.pos, len(rs), default, cur_runnable))
        self.pos += 1
        return c


# -------------------------------------------------------------------- shim primitives


class ShimLock:
    def __init__(self, sched):
        self.sched = sched
        self.locked_by = None
        sched.log("lock_created", id(self))

    def acquire(self, blocking=True, timeout=-1):
        s = self.sched
        s.pause("lock.acquire")
        if self.locked_by is not None:
            if not blocking:
                return False
            s.block_until(lambda: self.locked_by is None, "lock")
        t = s.me()
        self.locked_by = t.tid if t is not None else -1
        s.log("lock_acquired", self.locked_by)
        return True

    def release(self):
        if self.locked_by is None:
            raise RuntimeError("release unlocked lock")
        self.locked_by = None
        self.sched.pause("lock.release")

    def locked(self):
        return self.locked_by is not None

    def __enter__(self):
        self.acquire()
        return self

    def __exit__(self, *a):
        self.release()
        return False


class ShimEvent:
    def __init__(self, sched):
        self.sched = sched
        self.flag = False
        t = sched.me()
        self.creator = t.tid if t is not None else -1
        sched.log("event_created", self.creator, id(self))

    def set(self):
        self.flag = True
        t = self.sched.me()
        self.sched.log("event_set", t.tid if t else -1, self.creator)
        self.sched.pause("event.set")

    def clear(self):
        self.flag = False

    def is_set(self):
        return self.flag

    def wait(self, timeout=None):
        s = self.sched
        s.pause("event.wait")
        if not self.flag:
            if timeout is not None:
                # a timed wait that would expire is modelled as "returns False now" only when nothing else can run;
                # the code under test uses untimed waits
                pass
            s.block_until(lambda: self.flag, "event")
        return True


class ShimThreading:
    """stands in for the `threading` module inside the module under test"""

    def __init__(self, sched):
        self._sched = sched

    def Lock(self):
        return ShimLock(self._sched)

    def RLock(self):
        return ShimLock(self._sched)

    def Event(self):
        return ShimEvent(self._sched)

    def __getattr__(self, name):
        return getattr(_real_threading, name)


# -------------------------------------------------------------------- line-level yield injection

_TOOL = None


def _code_objects(obj, seen=None):
    """all code objects of functions/methods defined in a module or class (recursively through co_consts)"""
    seen = seen if seen is not None else {}
    if isinstance(obj, types.CodeType):
        if id(obj) not in seen:
            seen[id(obj)] = obj
            for c in obj.co_consts:
                if isinstance(c, types.CodeType):
                    _code_objects(c, seen)
        return seen
    if isinstance(obj, (types.FunctionType, types.MethodType)):
        return _code_objects(obj.__code__, seen)
    if isinstance(obj, (staticmethod, classmethod)):
        return _code_objects(obj.__func__, seen)
    if isinstance(obj, property):
        for f in (obj.fget, obj.fset, obj.fdel):
            if f is not None:
                _code_objects(f, seen)
        return seen
    if isinstance(obj, type):
        for v in vars(obj).values():
            if isinstance(v, (types.FunctionType, staticmethod, classmethod, property)):
                _code_objects(v, seen)
        return seen
    if isinstance(obj, types.ModuleType):
        for v in vars(obj).values():
            if isinstance(v, types.FunctionType) and v.__module__ == obj.__name__:
                _code_objects(v, seen)
            elif isinstance(v, type) and v.__module__ == obj.__name__:
                _code_objects(v, seen)
        return seen
    return seen


class LineInjector:
    """sys.monitoring LINE events on selected code objects; the callback yields to the scheduler"""

    def __init__(self):
        self.codes = {}
        self.sched = None
        self.decide = None
        self.tool = None
        self.count = 0

    def watch(self, *objs):
        for o in objs:
            _code_objects(o, self.codes)
        return self

    def install(self):
        mon = sys.monitoring
        for tid in (mon.PROFILER_ID, mon.OPTIMIZER_ID, 3, 4):
            try:
                mon.use_tool_id(tid, "verif-sched")
                self.tool = tid
                break
            except ValueError:
                continue
        if self.tool is None:
            raise RuntimeError("no free sys.monitoring tool id")
        mon.register_callback(self.tool, mon.events.LINE, self._on_line)
        for c in self.codes.values():
            mon.set_local_events(self.tool, c, mon.events.LINE)
        return self

    def uninstall(self):
        mon = sys.monitoring
        if self.tool is not None:
            for c in self.codes.values():
                try:
                    mon.set_local_events(self.tool, c, 0)
                except Exception:
                    pass
            mon.register_callback(self.tool, mon.events.LINE, None)
            mon.free_tool_id(self.tool)
            self.tool = None

    def attach(self, sched, decide):
        self.sched, self.decide = sched, decide

    def detach(self):
        self.sched = None

    def _on_line(self, code, line):
        s = self.sched
        if s is None:
            return
        t = s.me()
        if t is None or t is not s.current:
            return
        self.count += 1
        if self.decide is None or self.decide():
            s.pause(f"line:{code.co_name}:{line}")
