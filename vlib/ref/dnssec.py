"""Independent reference implementations of the key-free DNSSEC computations
(RFC 4034 §3.1.8.1, §5.1.4, App. B; RFC 4035 §5.3.2; RFC 5155 §5; RFC 8976 §3.3; RFC 4035 §2.3 NSEC chain).
Nothing here imports dns.*; names are label tuples, rdata are canonical wire bytes."""

import base64
import hashlib
import struct

from vlib.ref import names as RN


def canon_name_wire(labels):
    return RN.to_wire(tuple(RN.fold(l) for l in labels))


def key_tag(rdata: bytes) -> int:
    """RFC 4034 Appendix B (and B.1 for algorithm 1)"""
    alg = rdata[3]
    if alg == 1:
        if len(rdata) < 4 + 3:
            return None  # undefined for too-short RSA/MD5 keys
        return (rdata[-3] << 8) + rdata[-2]
    ac = 0
    for i, b in enumerate(rdata):
        ac += b if (i & 1) else (b << 8)
    ac += (ac >> 16) & 0xFFFF
    return ac & 0xFFFF


def ds_digest(owner_labels, dnskey_rdata: bytes, digest_type: int) -> bytes:
    h = {1: hashlib.sha1, 2: hashlib.sha256, 4: hashlib.sha384}[digest_type]
    return h(canon_name_wire(owner_labels) + dnskey_rdata).digest()


def nsec3_hash(labels, salt: bytes, iterations: int) -> str:
    d = hashlib.sha1(canon_name_wire(labels) + salt).digest()
    for _ in range(iterations):
        d = hashlib.sha1(d + salt).digest()
    b32 = base64.b32encode(d).decode()
    std = "ABCDEFGHIJKLMNOPQRSTUVWXYZ234567"
    hexa = "0123456789ABCDEFGHIJKLMNOPQRSTUV"
    return "".join(hexa[std.index(c)] for c in b32)


class RefReject(Exception):
    pass


def rrsig_signing_input(owner_labels, rdtype, rdclass, rrsig_fixed18: bytes, signer_labels, labels_field: int, original_ttl: int, canonical_rdatas):
    """RFC 4034 §3.1.8.1: RRSIG_RDATA (without signature) | RR(1) | RR(2)...  with the wildcard rule of
    RFC 4035 §5.3.2.  canonical_rdatas: iterable of canonical-form RDATA bytes (set semantics)."""
    owner = tuple(owner_labels)
    nlabels = len(owner) - 1  # without root
    if owner[0] == b"*":
        if labels_field != nlabels - 1:
            raise RefReject("wildcard owner must have labels == count-1")
    if labels_field > nlabels:
        raise RefReject("labels field larger than owner label count")
    if labels_field < nlabels:
        owner = (b"*",) + owner[len(owner) - 1 - labels_field:]
    data = rrsig_fixed18 + canon_name_wire(signer_labels)
    name = canon_name_wire(owner)
    for rd in sorted(set(canonical_rdatas)):
        data += name + struct.pack("!HHI", rdtype, rdclass, original_ttl) + struct.pack("!H", len(rd)) + rd
    return data


def zonemd_simple(origin, rrs, hash_alg: int) -> bytes:
    """RFC 8976 §3.3.1 / §3.4.1.  rrs: iterable of (owner labels abs, rdtype, covers, rdclass, ttl, canonical rdata).
    Apex ZONEMD and RRSIG covering ZONEMD are excluded."""
    h = {1: hashlib.sha384, 2: hashlib.sha512}[hash_alg]()
    okey = tuple(RN.fold(l) for l in origin)
    items = set()
    for owner, rdtype, covers, rdclass, ttl, rd in rrs:
        fo = tuple(RN.fold(l) for l in owner)
        if fo == okey and (rdtype == 63 or (rdtype == 46 and covers == 63)):
            continue
        items.add((RN.key(fo), rdtype, rd, fo, rdclass, ttl))
    for k, rdtype, rd, fo, rdclass, ttl in sorted(items, key=lambda x: (x[0], x[1], x[2])):
        h.update(RN.to_wire(fo) + struct.pack("!HHI", rdtype, rdclass, ttl) + struct.pack("!H", len(rd)) + rd)
    return h.digest()


def bitmap(types) -> bytes:
    out = bytearray()
    wins = {}
    for t in types:
        wins.setdefault(t >> 8, bytearray(32))
        wins[t >> 8][(t & 0xFF) >> 3] |= 0x80 >> (t & 7)
    for w in sorted(wins):
        bm = bytes(wins[w]).rstrip(b"\x00")
        out += bytes([w, len(bm)]) + bm
    return bytes(out)


def nsec_chain(origin, owners_types):
    """owners_types: {abs owner labels: set(types present)} (exact spelling).  Returns list of
    (owner, next owner, set(types in bitmap)) for every authoritative name in canonical order.
    Delegation points (non-apex NS owners) are included with {NS, DS if present, RRSIG, NSEC};
    names strictly beneath a delegation point are skipped."""
    okey = tuple(RN.fold(l) for l in origin)
    names = sorted(owners_types, key=RN.key)
    cuts = [n for n in names if 2 in owners_types[n] and tuple(RN.fold(l) for l in n) != okey]
    secure = []
    for n in names:
        if any(len(n) > len(c) and RN.is_subdomain(n, c) for c in cuts):
            continue
        secure.append(n)
    out = []
    for i, n in enumerate(secure):
        nxt = secure[(i + 1) % len(secure)]
        types = set(owners_types[n])
        if n in cuts:
            types = {t for t in types if t in (2, 43)}
        types |= {46, 47}
        out.append((n, nxt, types))
    return out


def selfcheck():
    # RFC 5155 Appendix A: H(example) with salt aabbccdd, 12 iterations
    assert nsec3_hash((b"example", b""), bytes.fromhex("aabbccdd"), 12) == "0P9MHAVEQVM6T7VBL5LOP2U3T2RP3TOM", nsec3_hash((b"example", b""), bytes.fromhex("aabbccdd"), 12)
    assert nsec3_hash((b"a", b"example", b""), bytes.fromhex("aabbccdd"), 12) == "35MTHGPGCU1QG68FAB165KLNSNK3DPVL"
    # RFC 4034 §5.4 example: dskey.example.com. key tag 60485, SHA-1 digest
    key = base64.b64decode("AQOeiiR0GOMYkDshWoSKz9XzfwJr1AYtsmx3TGkJaNXVbfi/2pHm822aJ5iI9BMzNXxeYCmZDRD99WYwYqUSdjMmmAphXdvxegXd/M5+X7OrzKBaMbCVdFLUUh6DhweJBjEVv5f2wwjM9XzcnOf+EPbtG9DMBmADjFDc2w/rljwvFw==")
    rdata = struct.pack("!HBB", 256, 3, 5) + key
    assert key_tag(rdata) == 60485, key_tag(rdata)
    assert ds_digest((b"dskey", b"example", b"com", b""), rdata, 1).hex().upper() == "2BB183AF5F22588179A53B0A98631FAD1A292118"
    return True
