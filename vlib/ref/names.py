"""Independent reference model for DNS names (RFC 1035 §3.1, §4.1.4, §5.1; RFC 4034 §6.1).

A name is a tuple of bytes labels; absolute names end with b"".  Nothing here imports dns.*.
"""

SPECIAL = b'"().;\\@$'


class RefError(Exception):
    pass


# ---------------------------------------------------------------- text


def escape_label(label: bytes, style: str = "minimal") -> str:
    """three legal spellings of a label: minimal, all-\\DDD, backslash-char for every non-digit"""
    out = []
    for c in label:
        if style == "ddd":
            out.append("\\%03d" % c)
        elif style == "bschar":
            if 0x21 <= c <= 0x7E and not (0x30 <= c <= 0x39):
                out.append("\\" + chr(c))
            else:
                out.append("\\%03d" % c)
        else:
            if c in SPECIAL:
                out.append("\\" + chr(c))
            elif 0x21 <= c <= 0x7E:
                out.append(chr(c))
            else:
                out.append("\\%03d" % c)
    return "".join(out)


def to_text(labels, style="minimal") -> str:
    if len(labels) == 0:
        return "@"
    if labels == (b"",):
        return "."
    if labels[-1] == b"":
        return ".".join(escape_label(l, style) for l in labels[:-1]) + "."
    return ".".join(escape_label(l, style) for l in labels)


def parse_text(text: str, origin=(b"",)):
    """RFC 1035 §5.1 reading of an all-ASCII presentation name.  Returns labels tuple or raises
    RefError.  origin=None means 'leave relative'."""
    if text == "@":
        text = ""
    labels = []
    if text == ".":
        return (b"",)
    if text:
        cur = bytearray()
        i = 0
        n = len(text)
        ended_with_dot = False
        while i < n:
            ch = text[i]
            ended_with_dot = False
            if ch == "\\":
                if i + 1 >= n:
                    raise RefError("dangling escape")
                nx = text[i + 1]
                if nx.isdigit() and nx.isascii():
                    ds = text[i + 1 : i + 4]
                    if len(ds) != 3 or not all(d.isascii() and d.isdigit() for d in ds):
                        raise RefError("bad \\DDD")
                    v = int(ds)
                    if v > 255:
                        raise RefError("\\DDD > 255")
                    cur.append(v)
                    i += 4
                else:
                    cur.append(ord(nx))
                    i += 2
            elif ch == ".":
                if not cur:
                    raise RefError("empty label")
                labels.append(bytes(cur))
                cur = bytearray()
                ended_with_dot = True
                i += 1
            else:
                cur.append(ord(ch))
                i += 1
        if cur:
            labels.append(bytes(cur))
        elif ended_with_dot:
            labels.append(b"")
    if (not labels or labels[-1] != b"") and origin is not None:
        labels.extend(origin)
    labels = tuple(labels)
    check(labels)
    return labels


def wire_len(labels) -> int:
    return sum(len(l) + 1 for l in labels)


def check(labels):
    for i, l in enumerate(labels):
        if len(l) > 63:
            raise RefError("label too long")
        if l == b"" and i != len(labels) - 1:
            raise RefError("interior empty label")
    if wire_len(labels) > 255:
        raise RefError("name too long")


def fits(labels) -> bool:
    try:
        check(labels)
        return True
    except RefError:
        return False


# ---------------------------------------------------------------- wire


def to_wire(labels, origin=None) -> bytes:
    if not labels or labels[-1] != b"":
        if origin is None or not origin or origin[-1] != b"":
            raise RefError("need origin")
        labels = tuple(labels) + tuple(origin)
    return b"".join(bytes([len(l)]) + l for l in labels)


def from_wire(msg: bytes, pos: int, strict=False):
    """Decode a possibly compressed name.  Returns (labels, consumed).

    lenient rule = what RFC 1035 requires for termination: each pointer must target an offset
    strictly below the previous pointer target (initially: below the start of the name).
    strict additionally demands that the target holds a label start (not checked here: any
    earlier offset is a legal target as far as the wire grammar goes)."""
    labels = []
    start = pos
    limit = pos  # pointers must go strictly below this
    consumed = None
    total = 0
    steps = 0
    while True:
        steps += 1
        if steps > len(msg) + 2:
            raise RefError("loop")
        if pos >= len(msg):
            raise RefError("truncated")
        c = msg[pos]
        if c == 0:
            pos += 1
            if consumed is None:
                consumed = pos - start
            labels.append(b"")
            break
        if c < 64:
            if pos + 1 + c > len(msg):
                raise RefError("truncated label")
            labels.append(msg[pos + 1 : pos + 1 + c])
            total += c + 1
            pos += 1 + c
        elif c >= 192:
            if pos + 1 >= len(msg):
                raise RefError("truncated pointer")
            tgt = ((c & 0x3F) << 8) | msg[pos + 1]
            if consumed is None:
                consumed = pos + 2 - start
            if tgt >= limit:
                raise RefError("bad pointer")
            limit = tgt
            pos = tgt
        else:
            raise RefError("bad label type")
    labels = tuple(labels)
    if total + 1 > 255:
        raise RefError("name too long")
    return labels, consumed


# ---------------------------------------------------------------- order

_FOLD = bytes((c + 32) if 0x41 <= c <= 0x5A else c for c in range(256))


def fold(label: bytes) -> bytes:
    return label.translate(_FOLD)


def key(labels):
    """sort key: relative names before absolute; then labels right to left, folded octet order"""
    absolute = 1 if labels and labels[-1] == b"" else 0
    return (absolute, tuple(fold(l) for l in reversed(labels)))


def cmp(a, b) -> int:
    ka, kb = key(a), key(b)
    return (ka > kb) - (ka < kb)


def equal(a, b) -> bool:
    return len(a) == len(b) and all(fold(x) == fold(y) for x, y in zip(a, b))


def common_labels(a, b) -> int:
    n = 0
    for x, y in zip(reversed(a), reversed(b)):
        if fold(x) != fold(y):
            break
        n += 1
    return n


def relation(a, b):
    """returns (relation name, common label count) in the library's vocabulary"""
    aa = bool(a) and a[-1] == b""
    ba = bool(b) and b[-1] == b""
    if aa != ba:
        return "NONE", 0
    n = common_labels(a, b)
    if n == len(a) and n == len(b):
        return "EQUAL", n
    if n == len(a):
        return "SUPERDOMAIN", n
    if n == len(b):
        return "SUBDOMAIN", n
    if n > 0:
        return "COMMONANCESTOR", n
    return "NONE", 0


def is_subdomain(a, b) -> bool:
    r, _ = relation(a, b)
    return r in ("SUBDOMAIN", "EQUAL")
