def run():
    from vlib.ref import dnssec
    return dnssec.selfcheck()
