"""Independent RFC 8945 TSIG implementation on hmac/hashlib (no dns.* imports)."""

import hashlib
import hmac
import struct

from vlib.ref import names as RN
from vlib.ref import wirewalk as WW

ALGS = {
    "hmac-md5.sig-alg.reg.int.": (hashlib.md5, None),
    "hmac-sha1.": (hashlib.sha1, None),
    "hmac-sha224.": (hashlib.sha224, None),
    "hmac-sha256.": (hashlib.sha256, None),
    "hmac-sha256-128.": (hashlib.sha256, 16),
    "hmac-sha384.": (hashlib.sha384, None),
    "hmac-sha384-192.": (hashlib.sha384, 24),
    "hmac-sha512.": (hashlib.sha512, None),
    "hmac-sha512-256.": (hashlib.sha512, 32),
}


def alg_labels(text):
    return tuple(x.encode() for x in text.rstrip(".").split(".")) + (b"",)


def canon(labels):
    return RN.to_wire(tuple(RN.fold(l) for l in labels))


def tsig_vars(keyname, ttl, algname, time_signed, fudge, error, other, klass=255):
    return (canon(keyname) + struct.pack("!HI", klass, ttl) + canon(algname)
            + struct.pack("!HIH", (time_signed >> 32) & 0xFFFF, time_signed & 0xFFFFFFFF, fudge)
            + struct.pack("!HH", error, len(other)) + other)


def timers(time_signed, fudge):
    return struct.pack("!HIH", (time_signed >> 32) & 0xFFFF, time_signed & 0xFFFFFFFF, fudge)


def mac(algtext, secret, data):
    h, trunc = ALGS[algtext.lower()]
    d = hmac.new(secret, data, h).digest()
    return d[:trunc] if trunc else d


def tsig_rdata(algname, time_signed, fudge, macb, orig_id, error, other):
    return (RN.to_wire(algname) + timers(time_signed, fudge) + struct.pack("!H", len(macb)) + macb
            + struct.pack("!HHH", orig_id, error, len(other)) + other)


def append_tsig(msg: bytes, keyname, rdata: bytes, ttl=0, klass=255) -> bytes:
    """msg: complete message without TSIG.  Returns message with ARCOUNT+1 and the TSIG RR appended (uncompressed)."""
    ar = struct.unpack("!H", msg[10:12])[0]
    return msg[:10] + struct.pack("!H", ar + 1) + msg[12:] + RN.to_wire(keyname) + struct.pack("!HHIH", 250, klass, ttl, len(rdata)) + rdata


class Split:
    """a signed message split into its parts by the independent walker"""

    def __init__(self, wire: bytes):
        walk = WW.walk(wire)
        if walk["end"] != len(wire):
            raise WW.WalkError("trailing bytes")
        ad = walk["records"][2]
        allrecs = walk["records"][0] + walk["records"][1] + ad
        self.tsig_positions = [i for i, r in enumerate(allrecs) if r[1] == 250]
        if not ad or ad[-1][1] != 250:
            raise WW.WalkError("TSIG is not the last record")
        if len(self.tsig_positions) != 1:
            raise WW.WalkError("TSIG elsewhere")
        labels, t, c, ttl, off, rdlen = ad[-1]
        self.keyname, self.klass, self.ttl = labels, c, ttl
        # find the start of the TSIG RR: walk again counting
        pos = 12
        for _ in range(walk["counts"][0]):
            _, used = RN.from_wire(wire, pos)
            pos += used + 4
        for _ in range(sum(walk["counts"][1:]) - 1):
            _, used = RN.from_wire(wire, pos)
            pos += used
            rl = struct.unpack("!H", wire[pos + 8:pos + 10])[0]
            pos += 10 + rl
        self.tsig_start = pos
        rd = wire[off:off + rdlen]
        alg, used = RN.from_wire(rd, 0)
        if rd[used - 1] != 0 or any(b >= 0xC0 for b in ()):  # algorithm name inside TSIG RDATA is never compressed
            pass
        self.algname = alg
        p = used
        hi, lo, self.fudge, maclen = struct.unpack("!HIHH", rd[p:p + 10])
        self.time_signed = (hi << 32) | lo
        p += 10
        self.mac = rd[p:p + maclen]
        p += maclen
        self.orig_id, self.error, olen = struct.unpack("!HHH", rd[p:p + 6])
        p += 6
        self.other = rd[p:p + olen]
        if p + olen != len(rd):
            raise WW.WalkError("TSIG rdata length")
        ar = struct.unpack("!H", wire[10:12])[0]
        self.stripped = struct.pack("!H", self.orig_id) + wire[2:10] + struct.pack("!H", ar - 1) + wire[12:self.tsig_start]


def digest_input(split: Split, request_mac=b"", prior_mac=None, unsigned_between=(), timers_only=False):
    data = b""
    if prior_mac is not None:
        data += struct.pack("!H", len(prior_mac)) + prior_mac
    elif request_mac:
        data += struct.pack("!H", len(request_mac)) + request_mac
    for u in unsigned_between:
        data += u
    data += split.stripped
    if timers_only:
        data += timers(split.time_signed, split.fudge)
    else:
        data += tsig_vars(split.keyname, split.ttl, split.algname, split.time_signed, split.fudge, split.error, split.other, split.klass)
    return data


def verify(wire, keyname, algtext, secret, now, request_mac=b"", prior_mac=None, unsigned_between=(), timers_only=False):
    """returns (ok, reason)"""
    try:
        s = Split(wire)
    except (WW.WalkError, RN.RefError, struct.error, IndexError) as e:
        return False, f"malformed: {e}"
    if s.klass != 255:
        return False, "class"
    if not RN.equal(s.keyname, keyname):
        return False, "keyname"
    if not RN.equal(s.algname, alg_labels(algtext)):
        return False, "algorithm"
    if s.error != 0:
        return False, "error"
    if abs(s.time_signed - now) > s.fudge:
        return False, "time"
    want = mac(algtext, secret, digest_input(s, request_mac, prior_mac, unsigned_between, timers_only))
    if not hmac.compare_digest(want, s.mac):
        return False, "mac"
    return True, "ok"
