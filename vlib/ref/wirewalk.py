"""Independent walker over a DNS message in wire format (RFC 1035 §4.1).  No dns.* imports."""

import struct

from vlib.ref import names as RN


class WalkError(Exception):
    pass


def walk(wire: bytes):
    """returns dict(id, flags, counts=(q,an,au,ad), questions=[(labels,type,class)],
    records=[[...],[...],[...]] with entries (labels, type, class, ttl, rdata_offset, rdlen), end)"""
    if len(wire) < 12:
        raise WalkError("short header")
    mid, flags, q, an, au, ad = struct.unpack("!HHHHHH", wire[:12])
    pos = 12
    questions = []
    try:
        for _ in range(q):
            labels, used = RN.from_wire(wire, pos)
            pos += used
            t, c = struct.unpack("!HH", wire[pos:pos + 4])
            pos += 4
            questions.append((labels, t, c))
        secs = []
        for cnt in (an, au, ad):
            recs = []
            for _ in range(cnt):
                labels, used = RN.from_wire(wire, pos)
                pos += used
                if pos + 10 > len(wire):
                    raise WalkError("truncated RR header")
                t, c, ttl, rdlen = struct.unpack("!HHIH", wire[pos:pos + 10])
                pos += 10
                if pos + rdlen > len(wire):
                    raise WalkError("truncated RDATA")
                recs.append((labels, t, c, ttl, pos, rdlen))
                pos += rdlen
            secs.append(recs)
    except (RN.RefError, struct.error) as e:
        raise WalkError(str(e))
    return {"id": mid, "flags": flags, "counts": (q, an, au, ad), "questions": questions, "records": secs, "end": pos}
