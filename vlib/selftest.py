"""setup_cmd: sanity of the harness on a fresh restore (offline, stdlib only)."""
import os
import sys


def main():
    import dns.name
    import dns.version

    from vlib import core
    from vlib.ref import names as R

    print("dnspython", dns.version.version, "from", os.path.dirname(dns.__file__))
    assert R.parse_text(r"a\.b.c\065\\.", None) == (b"a.b", b"cA\\", b"")
    assert R.from_wire(b"\x01a\x00\x01b\xc0\x00", 3) == ((b"b", b"a", b""), 4)
    assert R.cmp((b"Z", b""), (b"a", b"")) > 0 and R.cmp((b"a",), (b"",)) < 0
    ok = True
    try:
        from vlib.ref import selfcheck

        ok = selfcheck.run()
    except ImportError:
        pass
    print("selftest ok" if ok else "selftest FAILED")
    return 0 if ok else 1
