#!/venv/bin/python
"""Entry point.
   vrun.py <Cxx> <quick|thorough>        run a check (VERIF_SEED, VERIF_TIER honoured)
   vrun.py --replay <file>               re-execute one recorded violating case
   vrun.py --selftest                    setup: reference models against RFC vectors, imports
   vrun.py --shard <Cxx> <spec> <out>    (internal) run one shard
"""
import os
import sys

ROOT = os.path.dirname(os.path.abspath(__file__))
sys.dont_write_bytecode = True
REPO = os.environ.get("VERIF_REPO", "/repo")
for p in (ROOT, REPO):
    if p in sys.path:
        sys.path.remove(p)
sys.path[0:0] = [REPO, ROOT]

from vlib import core  # noqa: E402


def main(argv):
    if len(argv) >= 1 and argv[0] == "--shard":
        core.child_main(argv[1], argv[2], argv[3])
        return 0
    if len(argv) >= 1 and argv[0] == "--replay":
        return core.run_replay(argv[1])
    if len(argv) >= 1 and argv[0] == "--selftest":
        from vlib import selftest

        return selftest.main()
    if len(argv) < 1:
        print(__doc__)
        return 64
    prop = argv[0].upper()
    tier = argv[1] if len(argv) > 1 else os.environ.get("VERIF_TIER", "quick")
    seed = int(os.environ.get("VERIF_SEED", "0"))
    shard = int(argv[3]) if len(argv) > 3 and argv[2] == "--only-shard" else None
    return core.run_check(prop, tier, seed, shard)


if __name__ == "__main__":
    sys.exit(main(sys.argv[1:]))
